#!/bin/bash
# usage: seed_check.sh <seed dir name under /verif/seeded> <property> [extra ./check args...]
# applies the seeded change to /repo, runs the registered quick check (without rewriting evidence), undoes the change
set -u
S=$1; P=$2; shift 2
cd /verif
if [ -n "$(git -C /repo status --porcelain)" ]; then echo "repo not clean"; exit 9; fi
git -C /repo apply /verif/seeded/$S/patch.diff || { echo "patch does not apply"; exit 9; }
./check $P --tier quick --no-evidence "$@" > /verif/seeded/$S/check_$P.log 2>&1
rc=$?
git -C /repo checkout -- .
echo "$S vs $P: exit=$rc $(grep -c '^VIOLATION' /verif/seeded/$S/check_$P.log) violation line(s); $(grep -E '^\[' /verif/seeded/$S/check_$P.log | tail -1)"
exit 0
