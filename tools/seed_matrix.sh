#!/bin/bash
# usage: seed_matrix.sh [tier] <seed-id>...     (default tier quick)
# For each seeded change: make a scratch worktree of /repo outside /repo and /verif, apply the patch there, run the
# REGISTERED check command of the seed's property against it (VERIF_REPO points the driver at the scratch tree; /repo
# itself is never touched), record exit status and VIOLATION lines in tools/seed_results.json, remove the worktree.
set -u
TIER=quick
if [ "$1" = quick ] || [ "$1" = thorough ]; then TIER=$1; shift; fi
cd /verif
for SP in "$@"; do
  # <seed> or <seed>:<property> (run another property's check against the seed)
  S=${SP%%:*}; P=${S%%-*}; case "$SP" in *:*) P=${SP##*:};; esac
  WT=$(mktemp -d /tmp/seedwt_XXXX); rmdir $WT
  git -C /repo worktree add --detach $WT HEAD -q || { echo "$S: worktree failed"; continue; }
  if ! git -C $WT apply /verif/seeded/$S/patch.diff; then echo "$S: patch does not apply"; git -C /repo worktree remove --force $WT; continue; fi
  LOG=/verif/.cache/seedlogs/$S.$P.$TIER.log; mkdir -p /verif/.cache/seedlogs
  t0=$(date +%s)
  VERIF_REPO=$WT ./check $P --tier $TIER --no-evidence > $LOG 2>&1
  rc=$?
  t1=$(date +%s)
  git -C /repo worktree remove --force $WT; git -C /repo worktree prune
  python3 - "$S" "$P" "$TIER" "$rc" "$LOG" $((t1-t0)) <<'PY'
import json, os, re, sys
s, p, tier, rc, log, secs = sys.argv[1:7]
text = open(log, errors="replace").read()
path = "/verif/tools/seed_results.json"
res = json.load(open(path)) if os.path.exists(path) else {}
fails = re.findall(r"^\s+failed checks in (\S+): (.*)$", text, re.M)
res.setdefault(s, {})["%s %s" % (p, tier)] = {
    "cmd": "./check %s --tier %s (VERIF_REPO=scratch worktree with the patch applied)" % (p, tier), "exit": int(rc),
    "violations": len(re.findall(r"^VIOLATION", text, re.M)), "inconclusive": len(re.findall(r"^INCONCLUSIVE", text, re.M)),
    "caught_by": [{"harness": h, "roles": sorted(set(re.findall(r"role=([A-Za-z0-9_.:+-]+)", f)))} for h, f in fails][:12],
    "summary": (re.findall(r"^\[.*\] \d+/\d+ harnesses.*$", text, re.M) or [""])[-1], "wall_s": int(secs)}
json.dump(res, open(path, "w"), indent=1, sort_keys=True)
print(s, p, tier, "exit", rc, res[s]["%s %s" % (p, tier)]["summary"])
PY
done
