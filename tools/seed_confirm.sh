#!/bin/bash
# usage: seed_confirm.sh <out_dir with patch.diff, demo.sh> <tag>
# confirms in a scratch worktree: tests pass with the change, demo fails with it and passes without it
set -u
OUT=$1; TAG=$2; WT=/tmp/sc_$TAG
git -C /repo worktree remove --force $WT 2>/dev/null
git -C /repo worktree add --detach $WT HEAD -q || exit 9
cd $WT
res=""
git apply $OUT/patch.diff || { echo "patch does not apply"; res="noapply"; }
if [ -z "$res" ]; then
  cargo test --offline > $OUT/confirm_suite_with.log 2>&1; s=$?
  pass=$(grep -E "^test result" $OUT/confirm_suite_with.log | head -1)
  cp -r $OUT/*.rs $WT/ 2>/dev/null
  ( cd $WT && bash $OUT/demo.sh > $OUT/confirm_demo_with.log 2>&1 ); dw=$?
  git checkout -q -- src Cargo.toml 2>/dev/null; git checkout -q -- . 
  ( cd $WT && bash $OUT/demo.sh > $OUT/confirm_demo_without.log 2>&1 ); dwo=$?
  echo "$TAG suite_exit=$s [$pass] demo_with_exit=$dw demo_without_exit=$dwo"
fi
cd /; git -C /repo worktree remove --force $WT
