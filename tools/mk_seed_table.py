#!/usr/bin/env python3
"""rewrites the table between <!-- SEED-TABLE-BEGIN --> and <!-- SEED-TABLE-END --> in DESIGN.md from seeded/*/meta.json"""
import json, os, re
V = os.path.dirname(os.path.dirname(os.path.abspath(__file__)))
rows = []
caught = total = 0
for d in sorted(os.listdir(os.path.join(V, "seeded"))):
    mp = os.path.join(V, "seeded", d, "meta.json")
    if not os.path.exists(mp):
        continue
    m = json.load(open(mp))
    det = m.get("detection", {})
    cells = []
    hit = False
    for k, v in sorted(det.items()):
        if v.get("exit") == 1 and v.get("violations", 0) > 0:
            hit = True
            by = "; ".join("%s [%s]" % (c["harness"], ", ".join(c["roles"][:3])) for c in v.get("caught_by", [])[:3])
            cells.append("**caught** by `%s`: %s" % (k, by))
        elif v.get("exit") == 0:
            cells.append("missed by `%s` (exit 0)" % k)
        else:
            cells.append("`%s`: exit %s (%d inconclusive)" % (k, v.get("exit"), v.get("inconclusive", 0)))
    total += 1
    caught += hit
    why = m.get("why_missed", "")
    title = re.sub(r"^(Seed|Change|Seeded change|C\d\d / change) ?[A-D]? ?(\(C\d\d\))? ?[-—:]* ?", "", m.get("title", "")).strip()
    rows.append("| %s | %s | %s | %s |" % (d, title[:110], "<br>".join(cells) or "not run", why))
table = "| seed | change | verdict of the registered quick check | if missed: why |\n|---|---|---|---|\n" + "\n".join(rows) + "\n\n%d of %d seeded changes are caught by the registered quick checks.\n" % (caught, total)
p = os.path.join(V, "DESIGN.md")
s = open(p).read()
a, b = "<!-- SEED-TABLE-BEGIN -->", "<!-- SEED-TABLE-END -->"
if a in s:
    s = s[:s.index(a) + len(a)] + "\n" + table + s[s.index(b):]
    open(p, "w").write(s)
print(table)
