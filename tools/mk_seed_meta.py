#!/usr/bin/env python3
"""(re)writes seeded/<id>/meta.json from notes.md (written by the sub-agent that produced the change, then confirmed
by tools/seed_confirm.sh) and from tools/seed_results.json (which of /verif's checks caught it; written by tools/seed_matrix.sh)"""
import json, os, re, sys
V = os.path.dirname(os.path.dirname(os.path.abspath(__file__)))
# why the registered checks cannot see a seeded change (written by hand after reading the patch; DESIGN.md section 7)
WHY = {
    "C03-C": "the stale reversed copy lives in SubRule::apply (the scan loop between rewrites): whole-rule application does not finish under CBMC (a > b on two segments: > 30 min); the environment kernels are unchanged by the patch",
    "C04-B": "the leak needs two match attempts of SubRule::input_match_at (state kept across attempts of the scan loop): whole-rule application, out of reach",
    "C04-D": "needs a second MATCH against an already bound alpha; every harness with two HashMap operations in match_seg_kind exhausts 14 GB under CBMC (measured twice, also with the R6 unwinding policy); only the later USE in an output is decided",
    "C08-A": "concat_tone: u64::to_string + Vec::dedup exhaust 14 GB even for single-digit tones and with to_string stubbed; the tone clause of C08 is outside the claim",
    "C08-B": "the empty syllable is produced inside SubRule::substitution (whole-rule application, out of reach); the claimed clause is the feature-bundle invariant",
    "C08-D": "the empty syllable is produced by a helper of SubRule::substitution reached only through whole-rule application; the claimed clause is the feature-bundle invariant",
    "C12-D": "Parser::get_spec_env works on the token vector of a concrete rule text: with the text concrete nothing is left for the solver, with it symbolic the lexer/parser do not finish; only the group-letter and optional clauses of C12 are claimed",
    "C14-B": "`$X > &` is the metathesis arm of SubRule::transform, which exhausts 14 GB under CBMC even for concrete match elements and with Word::clone stubbed; only the per-syllable mechanism of C14 is claimed",
    "C14-D": "the patch replaces apply_supras' fixed loops by loops whose bounds are computed values (min_len/max_len up to usize::MAX); every harness that reaches apply_supras then runs into the 900 s cap, so the quick check ends INCONCLUSIVE (exit 2) instead of reporting the violation -- not silent, but not a catch",
    "C03-E": "the slip is in the six-line combinator SubRule::match_contexts_and_exceptions (before AND after of one exception alternative): it deep-clones Vec<Item> and reverses a cloned Word, both of which exhaust memory under CBMC, so the harnesses recombine the two halves themselves (stated under 'outside the claim')",
    "C03-F": "needs a feature-matrix alternative inside a context set; the set shape with a matrix alternative ran past 25 minutes (match_modifiers over 34 slots inside the set loop), like every environment shape with a matrix element; sets of segments and `$` are decided",
    "C04-E": "the family apply-feature-and-length was added for this change and decides exactly its scenario, but on the PATCHED tree the three harnesses that reach Syllable::apply_seg_mods with a run of copies (apply_supras first, then iter_mut().skip().take() over the grown VecDeque) do not finish inside the quick budget: the check ends INCONCLUSIVE (exit 2), not silent, not a catch",
    "C16-A": "C16 is not applicable (section 3): the trace loops cannot be driven under CBMC",
    "C16-B": "C16 is not applicable (section 3): trace_to_string renders words (lazy_static tables, String growth)",
}
res = {}
p = os.path.join(V, "tools", "seed_results.json")
if os.path.exists(p):
    res = json.load(open(p))
for d in sorted(os.listdir(os.path.join(V, "seeded"))):
    dd = os.path.join(V, "seeded", d)
    if not os.path.isfile(os.path.join(dd, "patch.diff")):
        continue
    notes = open(os.path.join(dd, "notes.md"), encoding="utf-8").read() if os.path.exists(os.path.join(dd, "notes.md")) else ""
    title = (re.search(r"^# (.*)$", notes, re.M) or [None, ""])[1]
    norm = re.sub(r"^\*\*([^*\n]{3,80}?):?\*\*:?", lambda m: "## " + m.group(1) + "\n", notes, flags=re.M)
    secs = re.split(r"^## ", norm, flags=re.M)
    def sec(rx):
        for s in secs[1:]:
            head, _, body = s.partition("\n")
            if re.search(rx, head, re.I):
                return body.strip()
        return ""
    files = sorted(set(re.findall(r"^\+\+\+ b/(\S+)", open(os.path.join(dd, "patch.diff")).read(), re.M)))
    old = {}
    mp = os.path.join(dd, "meta.json")
    if os.path.exists(mp):
        old = json.load(open(mp))
    meta = {
        "id": d,
        "property": d.split("-")[0],
        "title": title,
        "files_changed": files,
        "breaks": sec(r"clause|breaks|broken")[:1500] or old.get("breaks", ""),
        "needs_to_manifest": sec(r"needed|manifest")[:2500] or old.get("needs_to_manifest", ""),
        "demonstration": [f for f in sorted(os.listdir(dd)) if f.startswith("demo")],
        "produced_by": old.get("produced_by", "fresh sub-agent given only the property text and a scratch worktree of /repo"),
        "confirmed": old.get("confirmed", "tools/seed_confirm.sh in a scratch worktree: patch applies, `cargo test --offline` passes all 144 tests with the change, demo.sh fails with the change and passes without it"),
        "commands_run_by_author": sec(r"commands run")[:2500] or old.get("commands_run_by_author", ""),
        "detection": res.get(d, old.get("detection", {})),
    }
    hit = any(v.get("exit") == 1 and v.get("violations", 0) > 0 for v in meta["detection"].values())
    if not hit and d in WHY:
        meta["why_missed"] = WHY[d]
    json.dump(meta, open(mp, "w"), indent=1, ensure_ascii=False)
    print(d, "->", {k: (v.get("exit"), v.get("violations")) for k, v in meta["detection"].items()} if meta["detection"] else "no detection run recorded")
