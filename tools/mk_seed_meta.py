#!/usr/bin/env python3
"""(re)writes seeded/<id>/meta.json from notes.md (written by the sub-agent that produced the change, then confirmed
by tools/seed_confirm.sh) and from tools/seed_results.json (which of /verif's checks caught it; written by tools/seed_matrix.sh)"""
import json, os, re, sys
V = os.path.dirname(os.path.dirname(os.path.abspath(__file__)))
res = {}
p = os.path.join(V, "tools", "seed_results.json")
if os.path.exists(p):
    res = json.load(open(p))
for d in sorted(os.listdir(os.path.join(V, "seeded"))):
    dd = os.path.join(V, "seeded", d)
    if not os.path.isfile(os.path.join(dd, "patch.diff")):
        continue
    notes = open(os.path.join(dd, "notes.md"), encoding="utf-8").read() if os.path.exists(os.path.join(dd, "notes.md")) else ""
    title = (re.search(r"^# (.*)$", notes, re.M) or [None, ""])[1]
    norm = re.sub(r"^\*\*([^*\n]{3,80}?):?\*\*:?", lambda m: "## " + m.group(1) + "\n", notes, flags=re.M)
    secs = re.split(r"^## ", norm, flags=re.M)
    def sec(rx):
        for s in secs[1:]:
            head, _, body = s.partition("\n")
            if re.search(rx, head, re.I):
                return body.strip()
        return ""
    files = sorted(set(re.findall(r"^\+\+\+ b/(\S+)", open(os.path.join(dd, "patch.diff")).read(), re.M)))
    old = {}
    mp = os.path.join(dd, "meta.json")
    if os.path.exists(mp):
        old = json.load(open(mp))
    meta = {
        "id": d,
        "property": d.split("-")[0],
        "title": title,
        "files_changed": files,
        "breaks": sec(r"clause|breaks|broken")[:1500] or old.get("breaks", ""),
        "needs_to_manifest": sec(r"needed|manifest")[:2500] or old.get("needs_to_manifest", ""),
        "demonstration": [f for f in sorted(os.listdir(dd)) if f.startswith("demo")],
        "produced_by": old.get("produced_by", "fresh sub-agent given only the property text and a scratch worktree of /repo"),
        "confirmed": old.get("confirmed", "tools/seed_confirm.sh in a scratch worktree: patch applies, `cargo test --offline` passes all 144 tests with the change, demo.sh fails with the change and passes without it"),
        "commands_run_by_author": sec(r"commands run")[:2500] or old.get("commands_run_by_author", ""),
        "detection": res.get(d, old.get("detection", {})),
    }
    json.dump(meta, open(mp, "w"), indent=1, ensure_ascii=False)
    print(d, "->", {k: (v.get("exit"), v.get("violations")) for k, v in meta["detection"].items()} if meta["detection"] else "no detection run recorded")
