#!/usr/bin/env python3
"""Writes /verif/MANIFEST.json. Edit CLAIMED / NOT_APPLICABLE here, never the JSON by hand."""
import json, os, sys

VERIF = os.path.dirname(os.path.dirname(os.path.abspath(__file__)))
TECH = "symbolic execution of the compiled MIR + SAT (Kani 0.68 / CBMC 6.11 bounded model checking with unwinding assertions); counterexamples replayed natively"
BASE = ("Trusted: Kani 0.68 -> CBMC 6.11 -> CaDiCaL on the dev-profile MIR of the current tree; the reference models in harness/common.rs. "
        "Stub: std::hash::RandomState::new -> fixed keys (getrandom cannot be modelled; keys only choose hash buckets). ")

CLAIMED = {
    "C18": dict(
        text="Bounded model checking of the real compiled accessors: every get/set/match law is an assertion over a fully symbolic Place (None + all 2^16 values), symbolic root/manner/laryngeal bytes, symbolic in-range values, masks and polarities. The code is loop-free so there is no unwinding bound: within the documented argument ranges the verdict covers every input, which is exactly the exhaustive quantifier of the property.",
        ref="DESIGN.md section 3, C18",
        note="Trusted: Kani 0.68 -> CBMC 6.11 -> CaDiCaL on the dev-profile MIR of the current tree; the 12-line reference bit layout in harness/common.rs. Assumed: payloads passed to set_* are in range (documented precondition); NodeKind::Place is not passed to the node accessors (documented panic). No stubs."),
    "C04": dict(
        text="Kernel-level bounded model checking: the functions the property is anchored in (FType::to_node_mask, Segment::apply_seg_mods, SubRule::match_feat_mod/match_node_mod/match_node/match_seg_kind/match_modifiers, Syllable::apply_seg_mods) are executed symbolically for every one of the 2^40 feature bundles (2^80 for donor x target alpha shapes) per generated matrix shape and compared with a bit-level reference model written from the property text. One harness per shape (26 features, 8 nodes, feature pairs, alpha capture->apply/match pairs through the real HashMap). The scan loop of whole-rule application is outside the claim.",
        ref="DESIGN.md section 3, C04",
        note=BASE + "Bounds: harness-wide unwind 8, loops of the crate's own sources FType::count()+2, hashbrown/SipHash loops 3 (all by --unwindset from this build's loop ids, unwinding assertions on); matrices of 1 and 2 named features; a later MATCH against an already bound alpha exhausts memory and is outside. [±place] matching assumes the C08 bundle invariant."),
    "C05": dict(
        text="Kernel-level bounded model checking of the manual's three-way tables: SubRule::match_supr_mod_seg/match_seg_length/match_stress/match_tone and Syllable::apply_supras/apply_syll_mods/replace_segment (plus SubRule::input_match_ipa for length modifiers on an IPA input element) are run on syllables of concrete shape (run length 1..3, first/middle/last) with symbolic bundles, stress, all u16 tones and all 9 {absent,+,-}^2 modifier combinations per table, and compared with 40 lines of reference tables; set-then-match, frame and error cases are asserted. The cursor defect quoted in the property lives in whole-rule application and is outside what these kernels can see.",
        ref="DESIGN.md section 3, C05",
        note=BASE + "Assumed: the run differs from its neighbours (the property's side condition). The full 9-row set table is decided on concrete pairwise-distinct bundles; single rows are decided for all bundles."),
    "C07": dict(
        text="Kernel-level bounded model checking of capture -> write-back pairs of real functions on the same element: feature alphas (match_seg_kind then apply_seg_mods), node alphas (match_node then apply_seg_mods), stress/length alphas (match_stress/match_seg_length then apply_syll_mods/apply_supras), segment variables (context_match_matrix/input_match_matrix store, context_match_var compares) -- all through the real hashbrown map -- asserting identity for every bundle/state. Known finding: a single stress alpha cannot carry secondary stress.",
        ref="DESIGN.md section 3, C07",
        note=BASE + "Bounds: harness-wide unwind 8, crate loops FType::count()+2, hashbrown/SipHash loops 3 (unwinding assertions on). Variable write-back in substitution/insertion outputs, syllable variables and structures are outside (whole-rule application)."),
    "C08": dict(
        text="Inductive step for the feature-bundle clause: from ANY bundle satisfying the invariant (no stray bits, no payload under an absent sub-node, empty place absent) one real mutator runs (apply_seg_mods for every one-slot matrix and node+feature pairs, set_feat/set_node in range, each of the 32 diacritics of diacritics.json, node/place/feature alphas bound by the real matcher on a well-formed donor) and the invariant is asserted afterwards; base case: all 365 bundles of cardinals.json. The syllable-count and tone clauses are outside (transform/concat_tone exhaust memory under CBMC).",
        ref="DESIGN.md section 3, C08",
        note=BASE + "The invariant Inv in harness/common.rs is my reading of the property's last clause. That rule sequences only compose these mutators is argued from the code, not decided."),
    "C12": dict(
        text="Group-letter clause: for each letter the manual documents, both parsers' group_to_matrix are executed and the returned matrix is compared slot by slot with the manual's 'equiv. to [...]' line (read from doc/doc.md at check time) and, through the real feat_match, on every one of the 2^40 bundles; every ASCII letter is accepted iff documented; join_group_with_params overrides exactly the named slots. Condensed rules, `_,X`, optionals and `&` need whole-rule application and are outside.",
        ref="DESIGN.md section 3, C12",
        note="Trusted: Kani/CBMC/CaDiCaL; the manual's lines are the specification; ref_match_set in harness/common.rs. No stubs. Unwind FType::count()+4."),
    "C14": dict(
        text="Per-syllable mechanism (syll.rs:107-215): a segment-only output (one-slot feature matrix, [-node], plain IPA replacement) applied to one position leaves segment count, neighbours, stress and tone untouched for all bundles; a prosody-only output (all 9 stress combinations, optional tone; also routed through a short, long and overlong segment) leaves every segment bit-identical. Boundary insertion/deletion/metathesis are outside (transform does not finish under CBMC).",
        ref="DESIGN.md section 3, C14",
        note=BASE + "Assumed: the modified segment differs from its neighbours."),
    "C03": dict(
        text="Environment-selection kernel: SubRule::match_before_env / match_after_env / context_match (#, $, IPA segments) and context_match_set (two-alternative sets) with SegPos::increment/reversed are executed on words of 3-4 segments in every syllabification with all word and context bundles symbolic, and compared with a straight-line reference walk emitted per shape (left neighbours right-to-left, right neighbours left-to-right, # past the edge, $ at a syllable edge). The scan, input matching and rewrite of whole-rule application are outside.",
        ref="DESIGN.md section 3, C03",
        note=BASE + "Shapes are 14 fixed regression shapes plus a seeded stratified draw; the combinator match_contexts_and_exceptions and Word::reverse are not encoded (the harness builds the reversed word by hand and recombines the halves: Vec<Syllable>::clone exhausts memory under CBMC); matrices as environment elements are out of reach (> 40 min per shape). Assumed: neighbouring segments inside a syllable are distinct."),
}

NOT_APPLICABLE = {
    "C01": "two-run hyperproperty over the per-process SipHash seed of a lazy_static HashMap; Kani cannot execute getrandom/Once/serde_json initialisation, a symbolic seed through SipHash is intractable and the renderer consuming the order does not finish under CBMC (DESIGN.md section 3)",
    "C02": "quantifies over arbitrary strings through lexer -> parser -> interpreter; the lexer does not finish on 3 symbolic chars, Rule::apply not on 3 segments; non-termination is not a bounded-model-checking question",
    "C06": "needs whole-rule application (SubRule::apply -> input_match_at -> transform), which does not finish under CBMC even for `a > b` on three segments",
    "C09": "get_as_grapheme / Word::render / Word::setup iterate lazy_static tables (365 cardinals, 32 diacritics), sort by a symbolic key and grow Strings under symbolic guards: out of CBMC's reach",
    "C10": "composition through rendered text: renderer + word parser + whole-rule application, none of which is encodable",
    "C11": "a statement about asca::run end to end (parsing, whole-rule application, rendering); the only fragment that could be driven in isolation (the two loop nests of lib.rs) does not finish under CBMC either (Vec<Syllable>::clone exhausts memory, see C16) and says nothing about binding leaks",
    "C13": "synonym tables live in the two lexers (to_lowercase + 171-arm string match) and in parser follow-sets over token vectors; neither finishes symbolically",
    "C15": "alias lexer/parser + Word::render with romanisers + fill_segments: Strings and lazy_static tables throughout",
    "C16": "tried and withdrawn: the two loop nests of lib.rs were driven for real under Kani with Rule::apply stubbed by a solver-chosen table, but Phrase/Word/Syllable clone followed by == exhausts 14 GB or 40 min even for one word and one rule, also with Syllable::clone stubbed (micro-probe: Vec<Syllable>::clone of ONE syllable alone exhausts 14 GB); by the decision rule of DESIGN.md (minimal shape must finish in 5 min) it is not applicable",
    "C17": "error positions are produced by the lexers/parser and consumed by format!/String::repeat with symbolic counts",
    "C19": "behaviour of the asca binary: files, clap, stdout, serde_json",
    "C20": "project trees on disk, config lexer/parser calling is_file()/parse_rsca, process exit status",
}


def main():
    claimed = dict(CLAIMED)
    na = dict(NOT_APPLICABLE)
    for a in sys.argv[1:]:
        if a.startswith("--drop="):
            pid, reason = a[7:].split(":", 1)
            claimed.pop(pid, None)
            na[pid] = reason
    man = {
        "version": 1,
        "setup_cmd": "./check --setup",
        "hooks": {"guard": "cfg(kani)", "enable": "none committed: ./check copies /repo's working tree to a scratch directory and appends `#[cfg(kani)] #[path=...] mod verif_kani;` lines there; cfg(kani) is only ever set by cargo kani",
                  "baseline_off_cmd": "cd /repo && cargo test --workspace --no-fail-fast --offline", "source_commits": [], "add_only": True},
        "engines": [{"name": "kani-cbmc", "path": "check", "serves_properties": sorted(claimed),
                     "kind_free_text": "generated #[kani::proof] harnesses over the real crate (gen/*.py, harness/common.rs), decided by CBMC 6.11 + CaDiCaL through Kani 0.68; driver ./check"}],
        "checks": [],
        "notes": "Solver-based checking only. Exit 2 of ./check means inconclusive (time-out, out of memory, vacuous harness, non-reproducing counterexample) and is never reported as success. Genuine defects found: see known_findings.json.",
        "not_applicable": [{"property_id": k, "reason": v} for k, v in sorted(na.items())],
    }
    for pid, c in sorted(claimed.items()):
        man["checks"].append({
            "property_id": pid, "quick_cmd": "./check %s --tier quick" % pid, "thorough_cmd": "./check %s --tier thorough" % pid,
            "evidence_file": "evidence/%s.json" % pid, "replay_cmd_template": "./check %s --replay {path}" % pid, "engine": "kani-cbmc",
            "level_claimed": {"category": "model_checking", "text": c["text"], "design_ref": c["ref"]}, "level_note": c["note"], "technique": TECH})
    with open(os.path.join(VERIF, "MANIFEST.json"), "w") as f:
        json.dump(man, f, indent=1)
    print("MANIFEST.json: %d claimed, %d not applicable" % (len(claimed), len(na)))


if __name__ == "__main__":
    main()
