use super::*;
use crate::place::Place;
use crate::parser::Env;

fn stub_rs() -> std::hash::RandomState { unsafe { std::mem::transmute::<(u64,u64), std::hash::RandomState>((0x0123456789abcdef, 0xfedcba9876543210)) } }
const P: Position = Position { group: 0, line: 0, start: 0, end: 1 };

fn any_place() -> Place { let mut p = Place::default(); if kani::any() { *p = Some(kani::any()); } p }
fn any_seg() -> Segment { Segment { root: kani::any(), manner: kani::any(), laryngeal: kani::any(), place: any_place() } }
fn any_bin() -> BinMod { if kani::any() { BinMod::Positive } else { BinMod::Negative } }
fn any_binmod() -> Option<ModKind> { if kani::any() { None } else { Some(ModKind::Binary(any_bin())) } }
fn cseg(r: u8, m: u8) -> Segment { Segment { root: r, manner: m, laryngeal: 0, place: Place::default() } }
fn any_stress() -> StressKind { let k: u8 = kani::any(); match k % 3 { 0 => StressKind::Primary, 1 => StressKind::Secondary, _ => StressKind::Unstressed } }

fn mk_sub(rt: RuleType) -> SubRule {
    SubRule { input: Vec::new(), output: Vec::new(), context: None, except: None, rule_type: rt, variables: RefCell::new(HashMap::new()), alphas: RefCell::new(HashMap::new()) }
}

#[kani::proof]
#[kani::stub(std::hash::RandomState::new, stub_rs)]
#[kani::unwind(8)]
fn r1_supras_symbolic_mods() {
    let a = cseg(1, 2); let b = cseg(4, 0);
    let mut sy = Syllable::new();
    sy.segments.push_back(b); sy.segments.push_back(a); sy.segments.push_back(a); sy.segments.push_back(b);
    let alphas: RefCell<HashMap<char, Alpha>> = RefCell::new(HashMap::new());
    let mods = SupraSegs { stress: [None, None], length: [any_binmod(), any_binmod()], tone: None };
    let r = sy.apply_supras(&alphas, &mods, 1, P);
    if r.is_ok() {
        let nl = sy.get_seg_length_at(1);
        if let Some(ModKind::Binary(BinMod::Positive)) = mods.length[0] { assert!(nl >= 2); }
        if let Some(ModKind::Binary(BinMod::Negative)) = mods.length[0] { assert!(nl == 1); }
        if let Some(ModKind::Binary(BinMod::Positive)) = mods.length[1] { assert!(nl == 3); }
        if let Some(ModKind::Binary(BinMod::Negative)) = mods.length[1] { assert!(nl <= 2); }
    }
    std::mem::forget(alphas); std::mem::forget(sy);
}

#[kani::proof]
#[kani::stub(std::hash::RandomState::new, stub_rs)]
#[kani::unwind(8)]
fn r2_supras_symbolic_segs() {
    let a = any_seg(); let b = any_seg();
    kani::assume(a != b);
    let mut sy = Syllable::new();
    sy.segments.push_back(b); sy.segments.push_back(a); sy.segments.push_back(b);
    let alphas: RefCell<HashMap<char, Alpha>> = RefCell::new(HashMap::new());
    let mods = SupraSegs { stress: [None, None], length: [Some(ModKind::Binary(BinMod::Positive)), None], tone: None };
    let r = sy.apply_supras(&alphas, &mods, 1, P);
    assert!(r.is_ok());
    assert!(sy.segments.len() == 4);
    assert!(sy.segments[1] == a && sy.segments[2] == a && sy.segments[0] == b && sy.segments[3] == b);
    std::mem::forget(alphas); std::mem::forget(sy);
}

fn valid_tone(t: u16) -> bool {
    if t > 9999 { return false }
    let d0 = t % 10; let d1 = (t / 10) % 10; let d2 = (t / 100) % 10; let d3 = (t / 1000) % 10;
    if t == 0 { return true }
    if d0 == 0 { return false }
    if t >= 10 && d1 == 0 { return false }
    if t >= 100 && d2 == 0 { return false }
    if t >= 1000 && d3 == 0 { return false }
    true
}
#[kani::proof]
#[kani::unwind(24)]
fn r3_concat_tone() {
    let p: u16 = kani::any(); let a: u16 = kani::any();
    kani::assume(valid_tone(p) && valid_tone(a));
    let r = SubRule::concat_tone(p, a);
    assert!(valid_tone(r));
}

#[kani::proof]
#[kani::stub(std::hash::RandomState::new, stub_rs)]
#[kani::unwind(30)]
fn r4_match_modifiers() {
    let s = any_seg();
    let sub = mk_sub(RuleType::Substitution);
    let mut sy = Syllable::new(); sy.segments.push_back(s);
    let mut w = Word::new(String::new(), &[]).ok().unwrap();
    w.syllables.push(sy);
    let mut m = Modifiers::new();
    let b = any_bin();
    m.feats[15] = Some(ModKind::Binary(b));
    let r = sub.match_modifiers(&m, &w, &SegPos::new(0,0), P);
    let (n, mask) = FType::from_usize(15).to_node_mask();
    match r { Ok(v) => assert!(v == s.feat_match(n, mask, b == BinMod::Positive)), Err(_) => assert!(false) }
    std::mem::forget(sub); std::mem::forget(w);
}

#[kani::proof]
#[kani::stub(std::hash::RandomState::new, stub_rs)]
#[kani::unwind(8)]
fn r5_delete_wellformed() {
    let sub = mk_sub(RuleType::Deletion);
    let mut w = Word::new(String::new(), &[]).ok().unwrap();
    let mut s0 = Syllable::new(); s0.segments.push_back(cseg(1,1)); s0.segments.push_back(cseg(2,1));
    let mut s1 = Syllable::new(); s1.segments.push_back(cseg(3,1));
    w.syllables.push(s0); w.syllables.push(s1);
    let si: usize = kani::any(); let gi: usize = kani::any();
    let pos = SegPos::new(si, gi);
    kani::assume(w.in_bounds(pos));
    let mut np = Some(SegPos::new(0,0));
    let r = sub.transform(&w, vec![MatchElement::Segment(pos, None)], &mut np);
    match r {
        Ok(out) => {
            assert!(out.syllables.len() >= 1);
            let mut i = 0;
            while i < out.syllables.len() { assert!(!out.syllables[i].segments.is_empty()); i += 1; }
            std::mem::forget(out);
        }
        Err(_) => {}
    }
    std::mem::forget(sub); std::mem::forget(w);
}

#[kani::proof]
#[kani::stub(std::hash::RandomState::new, stub_rs)]
#[kani::unwind(8)]
fn r8_match_stress() {
    let sub = mk_sub(RuleType::Substitution);
    let mut sy = Syllable::new();
    sy.stress = any_stress();
    let st = [any_binmod(), any_binmod()];
    let r = sub.match_stress(&st, &sy);
    let exp0 = match st[0] { None => true, Some(ModKind::Binary(BinMod::Positive)) => sy.stress != StressKind::Unstressed, _ => sy.stress == StressKind::Unstressed };
    let exp1 = match st[1] { None => true, Some(ModKind::Binary(BinMod::Positive)) => sy.stress == StressKind::Secondary, _ => sy.stress != StressKind::Secondary };
    match r { Ok(v) => assert!(v == (exp0 && exp1)), Err(_) => assert!(false) }
    std::mem::forget(sub); std::mem::forget(sy);
}

// s1: alpha capture then write-back is the identity (one feature shape), real HashMap
#[kani::proof]
#[kani::stub(std::hash::RandomState::new, stub_rs)]
#[kani::unwind(30)]
fn s1_alpha_roundtrip() {
    let s = any_seg();
    let sub = mk_sub(RuleType::Substitution);
    let kind = ModKind::Alpha(AlphaMod::Alpha('α'));
    let (n, mask) = FType::from_usize(15).to_node_mask();
    let r = sub.match_seg_kind(&kind, s, n, mask);
    match r {
        Ok(true) => {
            let mut t = s;
            let mut m = Modifiers::new();
            m.feats[15] = Some(kind);
            let r2 = t.apply_seg_mods(&sub.alphas, m.nodes, m.feats, P, false);
            assert!(r2.is_ok());
            assert!(t == s);
        }
        Ok(false) => { assert!(s.get_node(n).is_none()); }
        Err(_) => assert!(false),
    }
    std::mem::forget(sub);
}

// s2: context kernel: `c1 _ c2` around a symbolic position in a 2-syllable concrete-shape word
#[kani::proof]
#[kani::stub(std::hash::RandomState::new, stub_rs)]
#[kani::unwind(8)]
fn s2_context_kernel() {
    let c1 = any_seg(); let c2 = any_seg();
    let x0 = any_seg(); let x1 = any_seg(); let x2 = any_seg();
    kani::assume(x0 != x1 && x1 != x2);
    let mut sub = mk_sub(RuleType::Substitution);
    let env = Env { before: vec![Item::new(ParseElement::Ipa(c1, None), P)], after: vec![Item::new(ParseElement::Ipa(c2, None), P)], position: P };
    sub.context = Some(Item::new(ParseElement::Environment(vec![env]), P));
    let mut w = Word::new(String::new(), &[]).ok().unwrap();
    let mut s0 = Syllable::new(); s0.segments.push_back(x0); s0.segments.push_back(x1);
    let mut s1 = Syllable::new(); s1.segments.push_back(x2);
    w.syllables.push(s0); w.syllables.push(s1);
    // target = middle segment (0,1)
    let pos = SegPos::new(0, 1);
    let r = sub.match_contexts_and_exceptions(&w, pos, pos, true);
    match r { Ok(v) => assert!(v == (x0 == c1 && x2 == c2)), Err(_) => assert!(false) }
    std::mem::forget(sub); std::mem::forget(w);
}

#[kani::proof]
#[kani::stub(std::hash::RandomState::new, stub_rs)]
#[kani::unwind(8)]
fn s4_env_direct() {
    let c1 = any_seg(); let c2 = any_seg();
    let x0 = any_seg(); let x1 = any_seg(); let x2 = any_seg();
    kani::assume(x0 != x1 && x1 != x2);
    let sub = mk_sub(RuleType::Substitution);
    let aft = vec![Item::new(ParseElement::Ipa(c2, None), P)];
    let bef = vec![Item::new(ParseElement::Ipa(c1, None), P), Item::new(ParseElement::WordBound, P)];
    let mut w = Word::new(String::new(), &[]).ok().unwrap();
    let mut s0 = Syllable::new(); s0.segments.push_back(x0); s0.segments.push_back(x1);
    let mut s1 = Syllable::new(); s1.segments.push_back(x2);
    w.syllables.push(s0); w.syllables.push(s1);
    let mut wr = Word::new(String::new(), &[]).ok().unwrap();
    let mut r0 = Syllable::new(); r0.segments.push_back(x2);
    let mut r1 = Syllable::new(); r1.segments.push_back(x1); r1.segments.push_back(x0);
    wr.syllables.push(r0); wr.syllables.push(r1);
    let pos = SegPos::new(0, 1);
    let pr = pos.reversed(&w);
    assert!(pr == SegPos::new(1, 0));
    let a = sub.match_after_env(&aft, &w, &pos, false, true, true);
    let b = sub.match_before_env(&bef, &wr, &pr, false, true);
    match (a, b) {
        (Ok(a), Ok(b)) => { assert!(a == (x2 == c2)); assert!(b == (x0 == c1)); }
        _ => assert!(false),
    }
    std::mem::forget(sub); std::mem::forget(w); std::mem::forget(wr); std::mem::forget(aft); std::mem::forget(bef);
}



#[kani::proof]
#[kani::stub(std::hash::RandomState::new, stub_rs)]
#[kani::unwind(8)]
fn s5_env_stack() {
    let c1 = any_seg(); let c2 = any_seg();
    let x0 = any_seg(); let x1 = any_seg(); let x2 = any_seg();
    kani::assume(x0 != x1 && x1 != x2);
    let sub = mk_sub(RuleType::Substitution);
    let aft = [Item::new(ParseElement::Ipa(c2, None), P)];
    let bef = [Item::new(ParseElement::Ipa(c1, None), P), Item::new(ParseElement::WordBound, P)];
    let mut w = Word::new(String::new(), &[]).ok().unwrap();
    let mut s0 = Syllable::new(); s0.segments.push_back(x0); s0.segments.push_back(x1);
    let mut s1 = Syllable::new(); s1.segments.push_back(x2);
    w.syllables.push(s0); w.syllables.push(s1);
    let mut wr = Word::new(String::new(), &[]).ok().unwrap();
    let mut r0 = Syllable::new(); r0.segments.push_back(x2);
    let mut r1 = Syllable::new(); r1.segments.push_back(x1); r1.segments.push_back(x0);
    wr.syllables.push(r0); wr.syllables.push(r1);
    let pos = SegPos::new(0, 1);
    let pr = pos.reversed(&w);
    assert!(pr == SegPos::new(1, 0));
    let a = sub.match_after_env(&aft, &w, &pos, false, true, true);
    let b = sub.match_before_env(&bef, &wr, &pr, false, true);
    match (a, b) {
        (Ok(a), Ok(b)) => { assert!(a == (x2 == c2)); assert!(b == (x0 == c1)); }
        _ => assert!(false),
    }
    std::mem::forget(sub); std::mem::forget(w); std::mem::forget(wr); std::mem::forget(aft); std::mem::forget(bef);
}
