use super::*;

fn stub_prefix(_t: &crate::trie::Trie, _s: &str) -> bool { kani::any() }
static EMPTY_DIA: Vec<crate::seg::Diacritic> = Vec::new();
fn stub_dia(_s: &crate::DIACRITS) -> &'static Vec<crate::seg::Diacritic> { &EMPTY_DIA }
fn stub_trie(_s: &crate::CARDINALS_TRIE) -> &'static crate::trie::Trie {
    Box::leak(Box::new(crate::trie::Trie::new()))
}

#[kani::proof]
#[kani::stub(crate::trie::Trie::contains_prefix, stub_prefix)]
#[kani::stub(<crate::DIACRITS as std::ops::Deref>::deref, stub_dia)]
#[kani::stub(<crate::CARDINALS_TRIE as std::ops::Deref>::deref, stub_trie)]
#[kani::unwind(6)]
fn r6_lexer_3() {
    let src: [char; 3] = [kani::any(), kani::any(), kani::any()];
    let n: usize = kani::any();
    kani::assume(n <= 3);
    let mut lx = Lexer::new(&src[..n], 0, 0);
    match lx.get_next_token() {
        Ok(t) => { assert!(t.position.start <= t.position.end); assert!(t.position.end <= n + 1); std::mem::forget(t); }
        Err(_e) => { std::mem::forget(_e); }
    }
}
