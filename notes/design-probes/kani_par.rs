use super::*;
use crate::place::Place;
fn any_place() -> Place { let mut p = Place::default(); if kani::any() { *p = Some(kani::any()); } p }
fn any_seg() -> Segment { Segment { root: kani::any(), manner: kani::any(), laryngeal: kani::any(), place: any_place() } }

// s3: group letter P == doc matrix [+cons,-son,-syll,-delrel,-cont] on all segments (through DiaMods-free path: compare Modifiers)
#[kani::proof]
#[kani::unwind(30)]
fn s3_group_p() {
    let tk = Token::new(TokenKind::Group, "P", 0, 0, 0, 1);
    let p = Parser::new(vec![tk.clone()], 0, 0);
    let it = p.group_to_matrix(&tk);
    let s = any_seg();
    match it {
        Ok(item) => {
            let m = match &item.kind { ParseElement::Matrix(m, None) => m.clone(), _ => { assert!(false); return } };
            // evaluate the matrix on s with the public accessor
            let mut ok = true;
            let mut i = 0;
            while i < 26 {
                if let Some(ModKind::Binary(b)) = m.feats[i] {
                    let (n, mask) = FType::from_usize(i).to_node_mask();
                    if !s.feat_match(n, mask, b == BinMod::Positive) { ok = false; }
                }
                i += 1;
            }
            let doc = (s.root & 0b100 != 0) && (s.root & 0b010 == 0) && (s.root & 0b001 == 0) && (s.manner & 0b1000 == 0) && (s.manner & 0b10000000 == 0);
            assert!(ok == doc);
            std::mem::forget(item);
        }
        Err(_) => assert!(false),
    }
    std::mem::forget(p); std::mem::forget(tk);
}
