use crate::*;
use crate::seg::NodeKind;

fn any_place() -> Place {
    let mut p = Place::default();
    if kani::any() { *p = Some(kani::any()); }
    p
}

#[kani::proof]
fn p1_set_get_labial() {
    let mut p = any_place();
    let before = p;
    let v: Option<u8> = if kani::any() { let x: u8 = kani::any(); kani::assume(x <= 3); Some(x) } else { None };
    p.set_labial(v);
    assert_eq!(p.get_labial(), v);
    assert_eq!(p.get_coronal(), before.get_coronal());
    assert_eq!(p.get_dorsal(), before.get_dorsal());
    assert_eq!(p.get_pharyngeal(), before.get_pharyngeal());
}

#[kani::proof]
fn p1_seg_set_feat() {
    let mut s = Segment { root: kani::any(), manner: kani::any(), laryngeal: kani::any(), place: any_place() };
    let fi: usize = kani::any();
    kani::assume(fi < 26);
    let (n, m) = crate::lexer::FType::from_usize(fi).to_node_mask();
    let pos: bool = kani::any();
    let before = s;
    s.set_feat(n, m, pos);
    if pos { assert!(s.feat_match(n, m, true)); }
    else if before.get_node(n).is_some() { assert!(s.feat_match(n, m, false)); }
    else { assert!(s == before); }
}


use std::cell::RefCell;
use std::collections::{HashMap, VecDeque};
use crate::parser::{Modifiers, ModKind, BinMod, AlphaMod, SupraSegs, Item, ParseElement, Env};
use crate::lexer::{Position, FType};
use crate::rule::{Alpha, Rule};
use crate::syll::{Syllable, StressKind};
use crate::word::Word;

fn stub_rs() -> std::hash::RandomState { unsafe { std::mem::transmute::<(u64,u64), std::hash::RandomState>((0x0123456789abcdef, 0xfedcba9876543210)) } }

fn any_seg() -> Segment {
    Segment { root: kani::any(), manner: kani::any(), laryngeal: kani::any(), place: any_place() }
}
fn any_bin() -> BinMod { if kani::any() { BinMod::Positive } else { BinMod::Negative } }
fn any_binmod() -> Option<ModKind> {
    if kani::any() { None } else { Some(ModKind::Binary(any_bin())) }
}
const P: Position = Position { group: 0, line: 0, start: 0, end: 1 };

#[kani::proof]
#[kani::stub(std::hash::RandomState::new, stub_rs)]
#[kani::unwind(30)]
fn q1_apply_seg_mods_binary_round() {
    let mut s = any_seg();
    let before = s;
    let alphas: RefCell<HashMap<char, Alpha>> = RefCell::new(HashMap::new());
    let mut m = Modifiers::new();
    let b = any_bin();
    m.feats[15] = Some(ModKind::Binary(b));
    let r = s.apply_seg_mods(&alphas, m.nodes, m.feats, P, false);
    assert!(r.is_ok());
    let (n, mask) = FType::from_usize(15).to_node_mask();
    if b == BinMod::Positive { assert!(s.feat_match(n, mask, true)); }
    else if before.get_node(n).is_some() { assert!(s.feat_match(n, mask, false)); }
    else { assert!(s == before); }
    std::mem::forget(alphas);
}

#[kani::proof]
#[kani::stub(std::hash::RandomState::new, stub_rs)]
#[kani::unwind(30)]
fn q2_apply_seg_mods_alpha() {
    let mut s = any_seg();
    let alphas: RefCell<HashMap<char, Alpha>> = RefCell::new(HashMap::new());
    let v: bool = kani::any();
    alphas.borrow_mut().insert('α', Alpha::Feature(v));
    let mut m = Modifiers::new();
    m.feats[15] = Some(ModKind::Alpha(AlphaMod::Alpha('α')));
    let r = s.apply_seg_mods(&alphas, m.nodes, m.feats, P, false);
    assert!(r.is_ok());
    let (n, mask) = FType::from_usize(15).to_node_mask();
    if v { assert!(s.feat_match(n, mask, true)); }
    std::mem::forget(alphas);
}

#[kani::proof]
#[kani::stub(std::hash::RandomState::new, stub_rs)]
#[kani::unwind(8)]
fn q3_apply_supras() {
    let a = any_seg();
    let b = any_seg();
    kani::assume(a != b);
    let len: usize = kani::any();
    kani::assume(len >= 1 && len <= 3);
    let mut sy = Syllable::new();
    sy.segments.push_back(b);
    for _ in 0..len { sy.segments.push_back(a); }
    sy.segments.push_back(b);
    let alphas: RefCell<HashMap<char, Alpha>> = RefCell::new(HashMap::new());
    let mods = SupraSegs { stress: [None, None], length: [any_binmod(), any_binmod()], tone: None };
    let r = sy.apply_supras(&alphas, &mods, 1, P);
    if r.is_ok() {
        let nl = sy.get_seg_length_at(1);
        if let Some(ModKind::Binary(BinMod::Positive)) = mods.length[0] { assert!(nl >= 2); }
        if let Some(ModKind::Binary(BinMod::Negative)) = mods.length[0] { assert!(nl == 1); }
        if let Some(ModKind::Binary(BinMod::Positive)) = mods.length[1] { assert!(nl == 3); }
        if let Some(ModKind::Binary(BinMod::Negative)) = mods.length[1] { assert!(nl <= 2); }
    }
    std::mem::forget(alphas);
    std::mem::forget(sy);
}

fn word3(x: Segment, y: Segment, z: Segment) -> Word {
    let mut sy = Syllable::new();
    sy.segments.push_back(x); sy.segments.push_back(y); sy.segments.push_back(z);
    let mut w = Word::new(String::new(), &[]).ok().unwrap();
    w.syllables.push(sy);
    w
}

// a > b (Ipa > Ipa), no context: every seg equal to a becomes b, others unchanged
#[kani::proof]
#[kani::stub(std::hash::RandomState::new, stub_rs)]
#[kani::unwind(8)]
fn q4_sub_simple() {
    let a = any_seg(); let b = any_seg();
    let x = any_seg(); let y = any_seg(); let z = any_seg();
    kani::assume(x != y && y != z);
    kani::assume(a != b);
    let rule = Rule::new(vec![vec![Item::new(ParseElement::Ipa(a, None), P)]], vec![vec![Item::new(ParseElement::Ipa(b, None), P)]], vec![], vec![]);
    let w = word3(x, y, z);
    let r = rule.apply(w);
    match r {
        Ok(out) => {
            assert!(out.syllables.len() == 1);
            assert!(out.syllables[0].segments.len() == 3);
            assert!(out.syllables[0].segments[0] == if x == a { b } else { x });
            assert!(out.syllables[0].segments[1] == if y == a { b } else { y });
            assert!(out.syllables[0].segments[2] == if z == a { b } else { z });
            std::mem::forget(out);
        }
        Err(_) => assert!(false),
    }
    std::mem::forget(rule);
}

static mut TABLE: [[u8; 4]; 3] = [[0; 4]; 3];
fn stub_apply(r: &Rule, word: Word) -> Result<Word, Error> {
    let rid = r.input.len();
    let wid = (word.syllables[0].segments[0].root & 3) as usize;
    let t = unsafe { TABLE[rid][wid] };
    if t >= 4 { std::mem::forget(word); return Err(Error::RuleRun(RuleRuntimeError::DeletionOnlySeg)) }
    let mut w = word;
    w.syllables[0].segments[0].root = t;
    Ok(w)
}
fn mk_rule(id: usize) -> Rule {
    let mut inp: Vec<Vec<Item>> = Vec::new();
    let mut i = 0; while i < id { inp.push(Vec::new()); i += 1; }
    Rule::new(inp, Vec::new(), Vec::new(), Vec::new())
}
fn mk_word(id: u8) -> Word {
    let mut sy = Syllable::new();
    sy.segments.push_back(Segment { root: id, manner: 0, laryngeal: 0, place: Place::default() });
    let mut w = Word::new(String::new(), &[]).ok().unwrap();
    w.syllables.push(sy);
    w
}

#[kani::proof]
#[kani::stub(crate::rule::Rule::apply, stub_apply)]
#[kani::unwind(6)]
fn t1_trace_vs_run() {
    unsafe { let mut i = 0; while i < 3 { let mut j = 0; while j < 4 { let v: u8 = kani::any(); kani::assume(v <= 4); TABLE[i][j] = v; j += 1; } i += 1; } }
    let w0: u8 = kani::any(); kani::assume(w0 < 4);
    let w1: u8 = kani::any(); kani::assume(w1 < 4);
    let groups: Vec<Vec<Rule>> = vec![vec![mk_rule(0)], vec![mk_rule(1), mk_rule(2)]];
    let phrase = Phrase(vec![mk_word(w0), mk_word(w1)]);
    let run = apply_rule_groups(&groups, &[phrase.clone()]);
    let tr = apply_rules_trace(&groups, &phrase);
    match (run, tr) {
        (Ok(r), Ok(t)) => {
            let last = if t.is_empty() { &phrase } else { &t[t.len()-1].after };
            assert!(r[0] == *last);
            if t.len() == 2 { assert!(t[0].rule_index < t[1].rule_index); }
            std::mem::forget(r); std::mem::forget(t);
        }
        (Err(_), Err(_)) => {}
        _ => assert!(false),
    }
    std::mem::forget(groups); std::mem::forget(phrase);
}
