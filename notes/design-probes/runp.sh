#!/bin/bash
# usage: runp.sh timeout harness...
T=$1; shift
for h in "$@"; do
 ( cd /tmp/scratch/repo && ( time timeout $T env CARGO_NET_OFFLINE=true cargo kani -Z stubbing --target-dir /tmp/scratch/tgt_$h --harness $h > /tmp/scratch/logs/$h.log 2>&1 ) 2> /tmp/scratch/logs/$h.time ) &
done
wait
