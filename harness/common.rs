// Shared prelude of every generated harness module (copied to src/verif_common.rs in the
// scratch copy and mounted from lib.rs as `#[cfg(kani)] pub(crate) mod verif_common;`).
// Only symbolic-value constructors and the reference models (written from doc/doc.md and the
// property statements, NOT from the implementation) live here.
#![allow(dead_code, unused_imports)]

use crate::lexer::{FType, Position};
use crate::parser::{AlphaMod, BinMod, ModKind, Modifiers, SupraSegs};
use crate::place::Place;
use crate::seg::{NodeKind, Segment};
use crate::syll::{StressKind, Syllable};
use crate::word::Word;
use std::collections::VecDeque;

pub(crate) const P: Position = Position { group: 0, line: 0, start: 0, end: 1 };

/// Stub for `std::hash::RandomState::new` (the real one needs the `getrandom` syscall, which
/// CBMC cannot model). The keys only select hash buckets; no checked property depends on them.
pub(crate) fn stub_rs() -> std::hash::RandomState {
    unsafe { std::mem::transmute::<(u64, u64), std::hash::RandomState>((0x0123456789abcdef, 0xfedcba9876543210)) }
}

// ---------------------------------------------------------------------------------------------
// symbolic values

pub(crate) fn any_place() -> Place {
    let mut p = Place::default();
    if kani::any() {
        *p = Some(kani::any());
    }
    p
}

pub(crate) fn any_seg() -> Segment {
    Segment { root: kani::any(), manner: kani::any(), laryngeal: kani::any(), place: any_place() }
}

/// any bundle satisfying the well-formedness invariant of C08
pub(crate) fn any_inv_seg() -> Segment {
    let s = any_seg();
    kani::assume(inv(&s));
    s
}

pub(crate) fn any_bin() -> BinMod {
    if kani::any() { BinMod::Positive } else { BinMod::Negative }
}

pub(crate) fn any_stress() -> StressKind {
    let k: u8 = kani::any();
    kani::assume(k < 3);
    match k {
        0 => StressKind::Primary,
        1 => StressKind::Secondary,
        _ => StressKind::Unstressed,
    }
}

pub(crate) fn bin(pos: bool) -> Option<ModKind> {
    Some(ModKind::Binary(if pos { BinMod::Positive } else { BinMod::Negative }))
}

/// `Modifiers::new()` without `core::array::from_fn`: the real constructor maps a closure over `[(); 26]`, a
/// standard-library loop that would force a 28-fold unwinding of every harness that merely *builds* a matrix
pub(crate) fn mods_new() -> Modifiers {
    Modifiers { nodes: [None; crate::lexer::NodeType::count()], feats: [None; FType::count()], suprs: SupraSegs::new() }
}

/// an empty word: built by the one-line constructor the driver mounts inside word.rs (the `americanist` flag is private)
pub(crate) fn empty_word() -> Word {
    crate::word::verif_word_helper::empty_word_direct()
}

pub(crate) fn syll_of(segs: &[Segment], stress: StressKind, tone: u16) -> Syllable {
    let mut sy = Syllable::new();
    let mut i = 0;
    while i < segs.len() {
        sy.segments.push_back(segs[i]);
        i += 1;
    }
    sy.stress = stress;
    sy.tone = tone;
    sy
}

// ---------------------------------------------------------------------------------------------
// reference model of the 16-bit place packing (doc comment of `Place`, property C18)
//   bit 15..12 : presence of labial, coronal, dorsal, pharyngeal
//   bit 11..10 : labial payload   [labiodental, round]
//   bit  9..8  : coronal payload  [anterior, distributed]
//   bit  7..2  : dorsal payload   [front, back, high, low, tense, reduced]
//   bit  1..0  : pharyngeal payload [atr, rtr]

pub(crate) const SUB_PRESENCE: [u16; 4] = [0x8000, 0x4000, 0x2000, 0x1000];
pub(crate) const SUB_SHIFT: [u16; 4] = [10, 8, 2, 0];
pub(crate) const SUB_WIDTH_MASK: [u16; 4] = [0x3, 0x3, 0x3f, 0x3];

pub(crate) fn raw(p: &Place) -> Option<u16> {
    **p
}

/// sub = 0 labial, 1 coronal, 2 dorsal, 3 pharyngeal
pub(crate) fn ref_sub(p: Option<u16>, sub: usize) -> Option<u8> {
    match p {
        None => None,
        Some(x) => {
            if x & SUB_PRESENCE[sub] != 0 {
                Some(((x >> SUB_SHIFT[sub]) & SUB_WIDTH_MASK[sub]) as u8)
            } else {
                None
            }
        }
    }
}

pub(crate) fn ref_presence(p: Option<u16>) -> u16 {
    match p {
        None => 0,
        Some(x) => x & 0xF000,
    }
}

pub(crate) fn ref_payload_field(p: Option<u16>, sub: usize) -> u16 {
    match p {
        None => 0,
        Some(x) => (x >> SUB_SHIFT[sub]) & SUB_WIDTH_MASK[sub],
    }
}

pub(crate) const SUB_NODES: [NodeKind; 4] = [NodeKind::Labial, NodeKind::Coronal, NodeKind::Dorsal, NodeKind::Pharyngeal];

pub(crate) fn node_width_mask(n: NodeKind) -> u8 {
    match n {
        NodeKind::Root | NodeKind::Manner | NodeKind::Laryngeal => 0xff,
        NodeKind::Labial | NodeKind::Coronal | NodeKind::Pharyngeal => 0x3,
        NodeKind::Dorsal => 0x3f,
        NodeKind::Place => 0,
    }
}

/// reference read of a node straight from the fields / the bit layout
pub(crate) fn ref_node(s: &Segment, n: NodeKind) -> Option<u8> {
    match n {
        NodeKind::Root => Some(s.root),
        NodeKind::Manner => Some(s.manner),
        NodeKind::Laryngeal => Some(s.laryngeal),
        NodeKind::Labial => ref_sub(raw(&s.place), 0),
        NodeKind::Coronal => ref_sub(raw(&s.place), 1),
        NodeKind::Dorsal => ref_sub(raw(&s.place), 2),
        NodeKind::Pharyngeal => ref_sub(raw(&s.place), 3),
        NodeKind::Place => None,
    }
}

/// Well-formedness of a feature bundle (property C08, last clause): no stray bits outside the
/// defined features, no features stored for an absent place sub-node, an empty place is absent.
pub(crate) fn inv(s: &Segment) -> bool {
    if s.root > 7 || s.laryngeal > 7 {
        return false;
    }
    match raw(&s.place) {
        None => true,
        Some(x) => {
            if x & 0xF000 == 0 {
                return false;
            }
            let mut ok = true;
            let mut i = 0;
            while i < 4 {
                if x & SUB_PRESENCE[i] == 0 && (x >> SUB_SHIFT[i]) & SUB_WIDTH_MASK[i] != 0 {
                    ok = false;
                }
                i += 1;
            }
            ok
        }
    }
}

// ---------------------------------------------------------------------------------------------
// reference model of the feature table (doc/doc.md "Distinctive features" + property C04).
// feature index -> (node index 0..6 = root, manner, laryngeal, labial, coronal, dorsal,
// pharyngeal ; bit mask). The table is emitted by the generator from doc-independent constants
// below and cross-checked against `FType::to_node_mask` by a dedicated harness.
pub(crate) const REF_FEAT_NODE: [u8; 26] = [
    0, 0, 0, // consonantal sonorant syllabic
    1, 1, 1, 1, 1, 1, 1, 1, // continuant approximant lateral nasal del.rel. strident rhotic click
    2, 2, 2, // voice s.g. c.g.
    3, 3, // labiodental round
    4, 4, // anterior distributed
    5, 5, 5, 5, 5, 5, // front back high low tense reduced
    6, 6, // atr rtr
];
pub(crate) const REF_FEAT_MASK: [u8; 26] = [
    0b100, 0b010, 0b001,
    0b1000_0000, 0b0100_0000, 0b0010_0000, 0b0001_0000, 0b0000_1000, 0b0000_0100, 0b0000_0010, 0b0000_0001,
    0b100, 0b010, 0b001,
    0b10, 0b01,
    0b10, 0b01,
    0b100000, 0b010000, 0b001000, 0b000100, 0b000010, 0b000001,
    0b10, 0b01,
];

pub(crate) fn ref_nodekind(i: u8) -> NodeKind {
    match i {
        0 => NodeKind::Root,
        1 => NodeKind::Manner,
        2 => NodeKind::Laryngeal,
        3 => NodeKind::Labial,
        4 => NodeKind::Coronal,
        5 => NodeKind::Dorsal,
        _ => NodeKind::Pharyngeal,
    }
}

/// value of feature `fi` in `s`: None = its sub-node is absent
pub(crate) fn ref_feat(s: &Segment, fi: usize) -> Option<bool> {
    let n = ref_nodekind(REF_FEAT_NODE[fi]);
    match ref_node(s, n) {
        None => None,
        Some(v) => Some(v & REF_FEAT_MASK[fi] != 0),
    }
}

/// C04: "a matrix matches iff every named feature has the named value (a feature of an absent
/// place sub-node matches neither + nor -)"
pub(crate) fn ref_match_feat(s: &Segment, fi: usize, positive: bool) -> bool {
    match ref_feat(s, fi) {
        None => false,
        Some(v) => v == positive,
    }
}

/// C04: "a positive feature of an absent sub-node creates that sub-node with its other features
/// negative, a negative feature of an absent sub-node does nothing, every feature not named keeps
/// its value". Works on the reference layout only (fields + bit arithmetic).
pub(crate) fn ref_apply_feat(s: &Segment, fi: usize, positive: bool) -> Segment {
    let ni = REF_FEAT_NODE[fi];
    let m = REF_FEAT_MASK[fi];
    let mut out = *s;
    match ni {
        0 => out.root = if positive { s.root | m } else { s.root & !m },
        1 => out.manner = if positive { s.manner | m } else { s.manner & !m },
        2 => out.laryngeal = if positive { s.laryngeal | m } else { s.laryngeal & !m },
        _ => {
            let sub = (ni - 3) as usize;
            let cur = ref_sub(raw(&s.place), sub);
            match (cur, positive) {
                (None, false) => {}
                (None, true) => out.place = ref_with_sub(raw(&s.place), sub, Some(m)),
                (Some(v), true) => out.place = ref_with_sub(raw(&s.place), sub, Some(v | m)),
                (Some(v), false) => out.place = ref_with_sub(raw(&s.place), sub, Some(v & !m)),
            }
        }
    }
    out
}

/// reference "place with sub-node `sub` set to `v`" (v = None removes it; an empty place is absent)
pub(crate) fn ref_with_sub(p: Option<u16>, sub: usize, v: Option<u8>) -> Place {
    let x = match p { None => 0u16, Some(x) => x };
    let cleared = x & !(SUB_PRESENCE[sub] | (SUB_WIDTH_MASK[sub] << SUB_SHIFT[sub]));
    let y = match v {
        None => cleared,
        Some(val) => cleared | SUB_PRESENCE[sub] | (((val as u16) & SUB_WIDTH_MASK[sub]) << SUB_SHIFT[sub]),
    };
    let mut out = Place::default();
    if y & 0xF000 != 0 {
        *out = Some(y);
    }
    out
}

/// structural equality that looks through `Place` at the reference level: same three bytes, same
/// four sub-node readings. On `inv` bundles this coincides with `==`.
pub(crate) fn same_features(a: &Segment, b: &Segment) -> bool {
    a.root == b.root
        && a.manner == b.manner
        && a.laryngeal == b.laryngeal
        && ref_sub(raw(&a.place), 0) == ref_sub(raw(&b.place), 0)
        && ref_sub(raw(&a.place), 1) == ref_sub(raw(&b.place), 1)
        && ref_sub(raw(&a.place), 2) == ref_sub(raw(&b.place), 2)
        && ref_sub(raw(&a.place), 3) == ref_sub(raw(&b.place), 3)
}

// ---------------------------------------------------------------------------------------------
// reference model of the suprasegmental tables (doc/doc.md "Suprasegmental features", C05)

/// length match: [-long] short, [+long] at least long, [+overlong] overlong, [-overlong] at most long
pub(crate) fn ref_match_length(len: usize, long: Option<bool>, overlong: Option<bool>) -> bool {
    let a = match long { None => true, Some(true) => len >= 2, Some(false) => len == 1 };
    let b = match overlong { None => true, Some(true) => len >= 3, Some(false) => len <= 2 };
    a && b
}

/// stress match: [+stress] primary or secondary, [-stress] unstressed, [+sec] secondary only,
/// [-sec] not secondary
pub(crate) fn ref_match_stress(st: StressKind, stress: Option<bool>, sec: Option<bool>) -> bool {
    let a = match stress { None => true, Some(true) => st != StressKind::Unstressed, Some(false) => st == StressKind::Unstressed };
    let b = match sec { None => true, Some(true) => st == StressKind::Secondary, Some(false) => st != StressKind::Secondary };
    a && b
}

/// resulting length after setting; None = contradictory combination (must be an error)
pub(crate) fn ref_set_length(len: usize, long: Option<bool>, overlong: Option<bool>) -> Option<usize> {
    match (long, overlong) {
        (None, None) => Some(len),
        (Some(false), Some(true)) => None,
        (_, Some(true)) => Some(3),
        (Some(true), Some(false)) => Some(2),
        (Some(true), None) => Some(if len < 2 { 2 } else { len }),
        (Some(false), _) => Some(1),
        (None, Some(false)) => Some(if len > 2 { 2 } else { len }),
    }
}

/// resulting stress after setting; None = contradictory combination (must be an error)
pub(crate) fn ref_set_stress(st: StressKind, stress: Option<bool>, sec: Option<bool>) -> Option<StressKind> {
    match (stress, sec) {
        (None, None) => Some(st),
        (Some(false), Some(true)) => None,
        (_, Some(true)) => Some(StressKind::Secondary),
        (Some(true), _) => Some(StressKind::Primary),
        (Some(false), _) => Some(StressKind::Unstressed),
        (None, Some(false)) => Some(if st == StressKind::Secondary { StressKind::Unstressed } else { st }),
    }
}

// ---------------------------------------------------------------------------------------------
// order-independent reference for a matrix that names several features (C04): per node, the named
// positive bits are set and the named negative bits cleared; an absent sub-node is created only
// if a positive feature of it is named, and then every feature not named positive is negative.
pub(crate) fn ref_apply_set(s: &Segment, named: &[(usize, bool)]) -> Segment {
    let mut out = *s;
    let mut ni = 0u8;
    while ni < 7 {
        let mut setm = 0u8;
        let mut clrm = 0u8;
        let mut k = 0;
        while k < named.len() {
            let (fi, pos) = named[k];
            if REF_FEAT_NODE[fi] == ni {
                if pos { setm |= REF_FEAT_MASK[fi] } else { clrm |= REF_FEAT_MASK[fi] }
            }
            k += 1;
        }
        if setm | clrm != 0 {
            match ni {
                0 => out.root = (s.root | setm) & !clrm,
                1 => out.manner = (s.manner | setm) & !clrm,
                2 => out.laryngeal = (s.laryngeal | setm) & !clrm,
                _ => {
                    let sub = (ni - 3) as usize;
                    let cur = ref_sub(raw(&s.place), sub);
                    if cur.is_some() || setm != 0 {
                        let v = (cur.unwrap_or(0) | setm) & !clrm;
                        out.place = ref_with_sub(raw(&out.place), sub, Some(v));
                    }
                }
            }
        }
        ni += 1;
    }
    out
}

pub(crate) fn ref_match_set(s: &Segment, named: &[(usize, bool)]) -> bool {
    let mut ok = true;
    let mut k = 0;
    while k < named.len() {
        if !ref_match_feat(s, named[k].0, named[k].1) { ok = false; }
        k += 1;
    }
    ok
}

/// node index as used by `Modifiers.nodes` (0 root .. 3 place, 4 labial .. 7 pharyngeal)
pub(crate) fn ref_node_present(s: &Segment, node_index: usize) -> bool {
    match node_index {
        0 | 1 | 2 => true,
        3 => ref_presence(raw(&s.place)) != 0,
        _ => ref_sub(raw(&s.place), node_index - 4).is_some(),
    }
}

/// `[-node]` removes the node, `[+node]` on an absent sub-node creates it empty, on a present one keeps it
pub(crate) fn ref_apply_node(s: &Segment, node_index: usize, positive: bool) -> Segment {
    let mut out = *s;
    if node_index == 3 {
        if !positive { out.place = Place::default(); }
    } else if node_index >= 4 {
        let sub = node_index - 4;
        let cur = ref_sub(raw(&s.place), sub);
        if !positive { out.place = ref_with_sub(raw(&s.place), sub, None); }
        else if cur.is_none() { out.place = ref_with_sub(raw(&s.place), sub, Some(0)); }
    }
    out
}
