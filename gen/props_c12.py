"""C12  documented shorthands mean exactly their expansions -- group-letter clause (kernel level)."""
import re
import gen_harness as G

ABBR = {"cons": 0, "son": 1, "syll": 2, "cont": 3, "approx": 4, "lat": 5, "nasal": 6, "delrel": 7, "strid": 8, "rhotic": 9, "click": 10, "voice": 11}
UNWIND = None


def doc_groups(dst):
    """the 'equiv. to [...]' lines of the manual: letter -> [(feature index, positive)]"""
    doc = G.read(dst, "doc/doc.md")
    out = {}
    for m in re.finditer(r"^([A-Z]) -> .*\(equiv[.,] to \[(.*?)\]\)", doc, re.M):
        feats = []
        for part in m.group(2).split(","):
            part = part.strip()
            pol, name = part[0], part[1:].strip().replace(".", "").replace(" ", "")
            if name not in ABBR or pol not in "+-":
                raise ValueError("cannot read manual group line: %r" % m.group(0))
            feats.append((ABBR[name], pol == "+"))
        out[m.group(1)] = feats
    return out


def c12(tier, seed, dst, facts):
    groups = doc_groups(dst)
    n = facts["ftype_count"]
    unwind = n + 4
    hs = []
    HDR = "#[kani::proof]\n#[kani::unwind(%d)]" % unwind
    for letter, feats in sorted(groups.items()):
        named = ", ".join("(%dusize, %s)" % (f, "true" if p else "false") for f, p in feats)
        checks = """
    // structural: exactly the manual's features are named, with the manual's polarity; nothing else is constrained
    let doc: [(usize, bool); @k@] = [@named@];
    let mut i = 0;
    while i < @n@ {
        let mut want: Option<bool> = None;
        let mut k = 0;
        while k < doc.len() { if doc[k].0 == i { want = Some(doc[k].1); } k += 1; }
        let got = match m.feats[i] { None => None, Some(ModKind::Binary(BinMod::Positive)) => Some(true), Some(ModKind::Binary(BinMod::Negative)) => Some(false), Some(ModKind::Alpha(_)) => { assert!(false, "role=group-matrix-has-alpha"); None } };
        assert!(got == want, "role=group-letter-@letter@-feature-list");
        i += 1;
    }
    let mut j = 0;
    while j < 8 { assert!(m.nodes[j].is_none(), "role=group-letter-names-a-node"); j += 1; }
    assert!(m.suprs == SupraSegs::new(), "role=group-letter-names-a-suprasegmental");
    // semantic: for every bundle, the returned matrix (evaluated with the real feat_match) selects exactly the
    // segments the manual's matrix selects
    let s = any_seg();
    let mut ok = true;
    let mut i = 0;
    while i < @n@ {
        if let Some(ModKind::Binary(b)) = m.feats[i] {
            let (nd, mask) = FType::from_usize(i).to_node_mask();
            if !s.feat_match(nd, mask, b == BinMod::Positive) { ok = false; }
        }
        i += 1;
    }
    assert!(ok == ref_match_set(&s, &doc), "role=group-letter-@letter@-selects-manual-class");
    kani::cover!(ok);
    kani::cover!(!ok);
"""
        hs.append(G.H("c12_rule_group_%s" % letter, "group-letter-rule-parser", "parser", G.T(HDR + """
fn @name@() {
    let tk = Token::new(TokenKind::Group, "@letter@", 0, 0, 0, 1);
    let p = Parser::new(vec![tk.clone()], 0, 0);
    let it = p.group_to_matrix(&tk);
    let item = match it { Ok(i) => i, Err(_) => { assert!(false, "role=documented-group-letter-rejected"); return } };
    let m = match &item.kind { ParseElement::Matrix(m, None) => m.clone(), _ => { assert!(false, "role=group-is-not-a-plain-matrix"); return } };
""" + checks + """
    std::mem::forget(item); std::mem::forget(p); std::mem::forget(tk);
}
""", name="c12_rule_group_%s" % letter, letter=letter, named=named, k=len(feats), n=n),
            functions=["Parser::group_to_matrix", "Segment::feat_match", "FType::to_node_mask"], symbolic="all bundles", shape="group %s = manual matrix %s" % (letter, feats), unwind=unwind))
        hs.append(G.H("c12_alias_group_%s" % letter, "group-letter-alias-parser", "aliasparser", G.T(HDR + """
fn @name@() {
    let pos = AliasPosition { kind: AliasKind::Romaniser, line: 0, start: 0, end: 1 };
    let tk = AliasToken { kind: AliasTokenKind::Group, value: "@letter@".to_string(), position: pos };
    let p = AliasParser::new(AliasKind::Romaniser, vec![tk.clone()], 0);
    let it = p.group_to_matrix(&tk);
    let (m, _) = match it { Ok(i) => i, Err(_) => { assert!(false, "role=documented-group-letter-rejected"); return } };
""" + checks + """
    std::mem::forget(p); std::mem::forget(tk);
}
""", name="c12_alias_group_%s" % letter, letter=letter, named=named, k=len(feats), n=n),
            functions=["AliasParser::group_to_matrix", "Segment::feat_match", "FType::to_node_mask"], symbolic="all bundles", shape="alias group %s = manual matrix" % letter, unwind=unwind))

    documented = "".join(sorted(groups))
    cond = " || ".join("c == b'%s'" % l for l in documented)
    hs.append(G.H("c12_rule_group_any_letter", "group-letter-domain", "parser", G.T(HDR + """
fn c12_rule_group_any_letter() {
    // every single ASCII letter: accepted iff the manual documents it as a group
    let c: u8 = kani::any();
    kani::assume((c >= b'A' && c <= b'Z') || (c >= b'a' && c <= b'z'));
    let buf = [c];
    let st = match std::str::from_utf8(&buf) { Ok(s) => s, Err(_) => return };
    let tk = Token::new(TokenKind::Group, st, 0, 0, 0, 1);
    let p = Parser::new(vec![tk.clone()], 0, 0);
    let r = p.group_to_matrix(&tk);
    let documented = @cond@;
    assert!(r.is_ok() == documented, "role=group-letter-domain");
    kani::cover!(documented);
    kani::cover!(!documented);
    std::mem::forget(r); std::mem::forget(p); std::mem::forget(tk);
}
""", cond=cond), functions=["Parser::group_to_matrix"], symbolic="the group letter (all 52 ASCII letters)", shape="documented letters: " + documented, unwind=unwind))

    # C:[...] parameters override exactly the named slots
    for letter, (pf, pdesc) in [("P", (3, "[±cont] overrides the group's own -cont")), ("C", (11, "[±voice] adds a slot")), ("V", (2, "[±syll] overrides +syll"))]:
        if letter not in groups:
            continue
        hs.append(G.H("c12_rule_join_%s" % letter, "group-with-parameters", "parser", G.T(HDR + """
fn @name@() {
    let tk = Token::new(TokenKind::Group, "@letter@", 0, 0, 0, 1);
    let mut p = Parser::new(vec![tk.clone()], 0, 0);
    let g = match p.group_to_matrix(&tk) { Ok(i) => i, Err(_) => { assert!(false, "role=documented-group-letter-rejected"); return } };
    let gm = match &g.kind { ParseElement::Matrix(m, None) => m.clone(), _ => return };
    let mut pm = Modifiers::new();
    let b = any_bin();
    pm.feats[@pf@] = Some(ModKind::Binary(b));
    let st = any_bin();
    pm.suprs.stress[0] = Some(ModKind::Binary(st));
    let t: u16 = kani::any();
    pm.suprs.tone = Some(t);
    let params = Item::new(ParseElement::Matrix(pm.clone(), None), P);
    let joined = p.join_group_with_params(g, params);
    let jm = match &joined.kind { ParseElement::Matrix(m, None) => m.clone(), _ => { assert!(false, "role=joined-is-not-a-plain-matrix"); return } };
    let mut i = 0;
    while i < @n@ {
        if i == @pf@ { assert!(jm.feats[i] == Some(ModKind::Binary(b)), "role=parameter-overrides-named-slot"); }
        else { assert!(jm.feats[i] == gm.feats[i], "role=parameter-leaves-other-slots"); }
        i += 1;
    }
    let mut j = 0;
    while j < 8 { assert!(jm.nodes[j] == gm.nodes[j], "role=parameter-leaves-nodes"); j += 1; }
    assert!(jm.suprs.stress[0] == Some(ModKind::Binary(st)) && jm.suprs.stress[1].is_none() && jm.suprs.length == [None, None] && jm.suprs.tone == Some(t), "role=parameter-suprasegmentals");
    std::mem::forget(joined); std::mem::forget(p); std::mem::forget(tk);
}
""", name="c12_rule_join_%s" % letter, letter=letter, pf=pf, n=n), functions=["Parser::group_to_matrix", "Parser::join_group_with_params"], symbolic="polarity of the parameter, stress polarity, all u16 tones", shape="%s:%s" % (letter, pdesc), unwind=unwind))

    hs.append(G.H("c12_twin_reach", "vacuity-twin", "parser", G.T(HDR + """
fn c12_twin_reach() {
    let tk = Token::new(TokenKind::Group, "V", 0, 0, 0, 1);
    let p = Parser::new(vec![tk.clone()], 0, 0);
    let it = p.group_to_matrix(&tk);
    kani::assume(it.is_ok());
    std::mem::forget(it); std::mem::forget(p); std::mem::forget(tk);
    assert!(false, "role=twin-end-reached");
}
"""), functions=["Parser::group_to_matrix"], symbolic="-", shape="assert(false) twin", expect="fail", unwind=unwind))
    for h in hs:
        h["array_loops"] = True      # group_to_matrix really runs Modifiers::new() (core::array::from_fn over 26 slots)

    # ---------------------------------------------------------------- optional `(X,M:N)` in an environment == the set of its M..N repetitions
    # SubRule::context_match_option takes the optional's states and the rest of the environment as slices (R5: stack
    # arrays). Word: four one-segment syllables [x0].[x1].[x2].[x3] (equal neighbours across a syllable edge are NOT a
    # long segment, so the repetitions of X may really be equal); the optional starts at x1; X is one IPA segment c; the
    # rest of the environment is `#` or one IPA segment d. Reference = the property's own expansion: some k in M..=N with
    # x1..xk all equal to c and the rest matching right after them.
    OPT_HDR = "#[kani::proof]\n" + G.STUB_RS + "\n#[kani::unwind(8)]"
    opt_shapes = [(1, 2, "#"), (0, 1, "I"), (0, 2, "#"), (2, 3, "#"), (1, 1, "I"), (1, 0, "#"), (0, 0, "I")] if tier == "thorough" else [(1, 2, "#"), (2, 3, "#"), [(0, 1, "I"), (0, 2, "#"), (1, 1, "I")][seed % 3]]
    for (mn, mx, rest) in opt_shapes:
        nm = "c12_optional_%d_%d_%s" % (mn, mx, "W" if rest == "#" else "I")
        hi = 3 if mx == 0 else min(mx, 3)          # max == 0 encodes "no upper bound" (doc: `(X,M:0)` / `(X,0)`)
        alts = []
        for k in range(mn, hi + 1):
            reps = " && ".join("xs[%d] == c" % (1 + i) for i in range(k)) or "true"
            after = 1 + k
            if rest == "#":
                tail = "true" if after >= 4 else "false"
            else:
                tail = ("xs[%d] == d" % after) if after < 4 else "false"
            alts.append("(%s && %s)" % (reps, tail))
        hs.append(G.H(nm, "optional-bounds", "subrule", G.T(OPT_HDR + """
fn @name@() {
    // environment `_ (c, @mn@:@mx@) @restdesc@` tried right after x0 in [x0].[x1].[x2].[x3]
    let x0 = any_seg(); let x1 = any_seg(); let x2 = any_seg(); let x3 = any_seg();
    let c = any_seg(); let d = any_seg();
    let mut w = empty_word();
    w.syllables.push(syll_of(&[x0], any_stress(), kani::any()));
    w.syllables.push(syll_of(&[x1], any_stress(), kani::any()));
    w.syllables.push(syll_of(&[x2], any_stress(), kani::any()));
    w.syllables.push(syll_of(&[x3], any_stress(), kani::any()));
    let xs = [x0, x1, x2, x3];
    let sub = mk_sub(RuleType::Substitution);
    let opt = [Item::new(ParseElement::Ipa(c, None), P)];
    // states[0] stands for the optional itself (context_match_option only reads what FOLLOWS it)
    let states = [Item::new(ParseElement::WordBound, P), @restitem@];
    let mut si = 0usize;
    let mut pos = SegPos::new(1, 0);
    let r = sub.context_match_option(&states, &mut si, &w, &mut pos, true, &opt, @mn@, @mx@);
    let exp = @alts@;
    match r { Ok(v) => assert!(v == exp, "role=optional-equals-set-of-its-repetitions"), Err(_) => assert!(false, "role=unexpected-error") }
    @covexp@ kani::cover!(!exp);
    kani::cover!(x1 == c && x2 == c && x3 == c);
    std::mem::forget(sub); std::mem::forget(w); std::mem::forget(opt); std::mem::forget(states);
}
""", name=nm, mn=mn, mx=mx, restdesc="#" if rest == "#" else "d", restitem="Item::new(ParseElement::WordBound, P)" if rest == "#" else "Item::new(ParseElement::Ipa(d, None), P)",
            alts=" || ".join(alts), covexp="kani::cover!(exp);" if any((1 + k >= 4) if rest == "#" else (1 + k < 4) for k in range(mn, hi + 1)) else "// (no repetition count in M..N reaches the word edge: the environment can never match here)"), shared=[G.SUBRULE_SHARED],
            functions=["SubRule::context_match_option", "SubRule::match_opt_states", "SubRule::context_match", "SubRule::context_match_ipa", "SegPos::increment", "HashMap::clone (empty binding tables)"],
            symbolic="4 word bundles, the optional's segment c, the following segment d (2^240), stress, tone", shape="(c,%d:%d) followed by %s" % (mn, mx, rest), unwind=8, stubs=["std::hash::RandomState::new -> fixed keys"], weight=3))
    return {
        "harnesses": hs, "cap_s": 900, "jobs": 10,
        "bounds": ["unwind %d = FType::count()+4 (loops over 26 feature slots, 8 node slots, <=5 manual features, Vec of <=5 pairs)" % unwind,
                   "group table read from doc/doc.md of the copied tree at generation time: %s" % {k: v for k, v in sorted(groups.items())}],
        "outside": ["condensed rules, `_,X` and `&`: their meaning is only observable by applying whole rules (or by parsing token vectors), which does not finish under CBMC; optionals are decided at the kernel (context_match_option with a one-segment optional followed by `#` or one segment), not nested and not with matrices",
                    "that the lexers produce a Group token for exactly these letters (lexers are out of reach)"],
        "assumptions": ["the manual's 'equiv. to [...]' lines are the specification", "ref_match_set/ref_match_feat in harness/common.rs"],
    }
