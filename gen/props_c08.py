"""C08  every output word is well formed -- feature-bundle clause, as an inductive step over the bundle mutators."""
import json
import gen_harness as G
import props_c04

STUBS = ["std::hash::RandomState::new -> fixed keys"]


def dia_mods(entry, feats, n_nodes=8):
    nodes = ["None"] * n_nodes
    fts = ["None"] * len(feats)
    for k, v in (entry or {}).items():
        val = "bin(true)" if v else "bin(false)"
        if k in G.NODES:
            nodes[G.NODES.index(k)] = val
        elif k in feats:
            fts[feats.index(k)] = val
        else:
            raise ValueError("diacritics.json names an unknown feature/node: %r" % k)
    return "DiaMods { nodes: [%s], feats: [%s] }" % (", ".join(nodes), ", ".join(fts))


def c08(tier, seed, dst, facts):
    n = facts["ftype_count"]
    unwind = n + 2
    feats = facts["ftype_variants"]
    hs = []
    HDR = "#[kani::proof]\n" + G.STUB_RS + "\n#[kani::unwind(%d)]" % unwind
    HDR0 = "#[kani::proof]\n#[kani::unwind(%d)]" % unwind

    # ---- base case: every bundle of cardinals.json satisfies the invariant
    cards = json.loads(G.read(dst, "src/cardinals.json"))
    rows = []
    for g, v in cards.items():
        rows.append("(%d, %d, %d, %s)" % (v["root"], v["manner"], v["laryngeal"], "None" if v.get("place") is None else "Some(%d)" % v["place"]))
    hs.append(G.H("c08_base_cardinals", "base-case", "seg", """
const C08_CARDINALS: [(u8, u8, u8, Option<u16>); %d] = [%s];
#[kani::proof]
#[kani::unwind(%d)]
fn c08_base_cardinals() {
    let mut i = 0;
    let mut with_place = 0;
    while i < C08_CARDINALS.len() {
        let (r, m, l, p) = C08_CARDINALS[i];
        let mut pl = Place::default();
        *pl = p;
        let s = Segment { root: r, manner: m, laryngeal: l, place: pl };
        assert!(inv(&s), "role=cardinal-table-entry-ill-formed");
        if p.is_some() { with_place += 1; }
        i += 1;
    }
    kani::cover!(with_place > 0);
}
""" % (len(rows), ", ".join(rows), len(rows) + 2), functions=["(cardinals.json of the current tree, evaluated against Inv)"], symbolic="none (concrete table of %d bundles)" % len(rows), shape="base case", unwind=len(rows) + 2))

    # ---- inductive step: one-slot feature / node matrices (one harness per node, one block per feature: see C04)
    by_node = {}
    for fi in range(n):
        by_node.setdefault(props_c04.NODE_OF[fi], []).append(fi)
    chunks = []
    for nix, fl in sorted(by_node.items()):
        if len(fl) > 4:
            half = (len(fl) + 1) // 2
            chunks += [(nix, "_a", fl[:half]), (nix, "_b", fl[half:])]
        else:
            chunks.append((nix, "", fl))
    for nix, sfx, fl in chunks:
        blocks = []
        for fi in fl:
            blocks.append(G.T("""
    {   // [±@fn@]
        let s = any_inv_seg();
        let b = any_bin();
        let mut m = mods_new();
        m.feats[@fi@] = Some(ModKind::Binary(b));
        let mut t = s;
        let r = t.apply_seg_mods(&alphas, m.nodes, m.feats, P, false);
        assert!(r.is_ok(), "role=unexpected-error-@fn@");
        assert!(inv(&t), "role=bundle-invariant-broken-@fn@");
        kani::cover!(t != s && b == BinMod::Positive);
        kani::cover!(t != s && b == BinMod::Negative);
    }""", fi=fi, fn=props_c04.fname(fi)))
        nm = "c08_step_feats_%s%s" % (props_c04.NODE_NAME[nix], sfx)
        hs.append(G.H(nm, "step-one-feature", "seg", G.T(HDR + """
fn @name@() {
    let alphas: RefCell<HashMap<char, Alpha>> = RefCell::new(HashMap::new());
@blocks@
    std::mem::forget(alphas);
}
""", name=nm, blocks="\n".join(blocks)), functions=["Segment::apply_seg_mods", "Segment::set_feat", "Segment::set_node", "Place::set_*"], symbolic="per feature: all bundles satisfying Inv, polarity",
            shape="[±F] for F in {%s}" % ", ".join(props_c04.fname(f) for f in fl), unwind=unwind, stubs=STUBS, weight=len(fl)))
    for ni in range(3, 8):
        nd = G.NODES[ni]
        nm = "c08_step_node_%s" % nd.lower()
        hs.append(G.H(nm, "step-node", "seg", G.T(HDR + """
fn @name@() {
    let s = any_inv_seg();
    let b = any_bin();
    let alphas: RefCell<HashMap<char, Alpha>> = RefCell::new(HashMap::new());
    let mut m = mods_new();
    m.nodes[@ni@] = Some(ModKind::Binary(b));
    let mut t = s;
    let r = t.apply_seg_mods(&alphas, m.nodes, m.feats, P, false);
    if r.is_ok() { assert!(inv(&t), "role=bundle-invariant-broken"); }
    kani::cover!(r.is_ok() && t != s);
    kani::cover!(r.is_ok() && raw(&t.place).is_none() && raw(&s.place).is_some());
    std::mem::forget(alphas);
}
""", name=nm, ni=ni), functions=["Segment::apply_seg_mods", "Segment::set_node", "Place::set_*"], symbolic="all bundles satisfying Inv, polarity", shape="[±%s]" % nd.lower(), unwind=unwind, stubs=STUBS))

    # ---- two slots (feature + node of the same sub-node, and feature pairs): where creation and removal interact
    combos = [(4, 15), (5, 16), (6, 20), (7, 24), (3, 18)] if tier == "quick" else [(ni, fi) for ni in range(3, 8) for fi in range(14, n) if ni == 3 or props_c04.NODE_OF[fi] == ni - 1]
    for (ni, fi) in combos:
        nm = "c08_step_node_%s_feat_%02d" % (G.NODES[ni].lower(), fi)
        hs.append(G.H(nm, "step-node-and-feature", "seg", G.T(HDR + """
fn @name@() {
    // [±node, ±feature-of-that-node] in one matrix (nodes are applied first, then features)
    let s = any_inv_seg();
    let bn = any_bin(); let bf = any_bin();
    let alphas: RefCell<HashMap<char, Alpha>> = RefCell::new(HashMap::new());
    let mut m = mods_new();
    m.nodes[@ni@] = Some(ModKind::Binary(bn));
    m.feats[@fi@] = Some(ModKind::Binary(bf));
    let mut t = s;
    let r = t.apply_seg_mods(&alphas, m.nodes, m.feats, P, false);
    if r.is_ok() { assert!(inv(&t), "role=bundle-invariant-broken"); }
    kani::cover!(r.is_ok() && bn == BinMod::Negative && bf == BinMod::Positive);
    std::mem::forget(alphas);
}
""", name=nm, ni=ni, fi=fi), functions=["Segment::apply_seg_mods"], symbolic="all Inv bundles, two polarities", shape="[±%s, ±%s]" % (G.NODES[ni].lower(), props_c04.fname(fi)), unwind=unwind, stubs=STUBS))

    # ---- public setters with in-range arguments
    hs.append(G.H("c08_step_set_feat", "step-public-setters", "seg", G.T(HDR0 + """
fn c08_step_set_feat() {
    let s = any_inv_seg();
    let fi: usize = kani::any();
    kani::assume(fi < @n@);
    let (nd, mask) = FType::from_usize(fi).to_node_mask();
    let pos: bool = kani::any();
    let mut t = s;
    t.set_feat(nd, mask, pos);
    assert!(inv(&t), "role=bundle-invariant-broken");
    kani::cover!(t != s && fi == @last@);
    kani::cover!(t != s && fi == 0);
}
""", n=n, last=n - 1), functions=["Segment::set_feat", "FType::to_node_mask"], symbolic="all Inv bundles, symbolic feature index, polarity", shape="set_feat through the feature table", unwind=unwind))
    for (lo, Up, idx, mx) in G.SUBS:
        hs.append(G.H("c08_step_set_node_%s" % lo, "step-public-setters", "seg", G.T(HDR0 + """
fn @name@() {
    let s = any_inv_seg();
    let v: Option<u8> = if kani::any() { let x: u8 = kani::any(); kani::assume(x <= @mx@); Some(x) } else { None };
    let mut t = s;
    t.set_node(NodeKind::@Up@, v);
    assert!(inv(&t), "role=bundle-invariant-broken");
    kani::cover!(raw(&t.place).is_none() && raw(&s.place).is_some());
}
""", name="c08_step_set_node_%s" % lo, Up=Up, mx=mx), functions=["Segment::set_node", "Place::set_%s" % lo], symbolic="all Inv bundles, value in range or None", shape="set_node(%s)" % Up, unwind=unwind))

    # ---- the 32 diacritics of diacritics.json, constructed directly
    dias = json.loads(G.read(dst, "src/diacritics.json"))
    GROUP = 4
    for g0 in range(0, len(dias), GROUP):
        blocks = []
        for di in range(g0, min(g0 + GROUP, len(dias))):
            d = dias[di]
            blocks.append(G.T("""
    {   // diacritic @di@ "@dname@" (U+@cp@)
        let s = any_inv_seg();
        let d = Diacritic { name: String::new(), diacrit: '\\u{@cp@}', prereqs: @pre@, payload: @pay@ };
        let mut t = s;
        let r = t.check_and_apply_diacritic(&d);
        match r { Ok(()) => assert!(inv(&t), "role=diacritic-breaks-bundle-invariant-@di@"), Err(_) => assert!(t == s, "role=rejected-diacritic-changed-segment-@di@") }
        kani::cover!(r.is_ok() && t != s);
        @cover_err@
        std::mem::forget(d);
    }""", di="%02d" % di, dname=d["name"].replace('"', ""), cp="%04x" % ord(d["diacrit"]), pre=dia_mods(d.get("prereqs"), feats), pay=dia_mods(d.get("payload"), feats), cover_err="kani::cover!(r.is_err());" if d.get("prereqs") else ""))
        nm = "c08_step_diacritics_%02d_%02d" % (g0, min(g0 + GROUP, len(dias)) - 1)
        hs.append(G.H(nm, "step-diacritic", "seg", G.T(HDR0 + """
fn @name@() {
@blocks@
}
""", name=nm, blocks="\n".join(blocks)), functions=["Segment::check_and_apply_diacritic", "Segment::match_modifiers", "Segment::apply_diacritic_payload"], symbolic="per diacritic: all Inv bundles",
            shape="diacritics %d..%d of diacritics.json: %s" % (g0, min(g0 + GROUP, len(dias)) - 1, ", ".join(dias[i]["name"] for i in range(g0, min(g0 + GROUP, len(dias))))), unwind=unwind, weight=GROUP))

    # ---- alphas in an output: the value carried comes from a well-formed donor (bound by the REAL matcher), the target is
    # well formed, and the result must be well formed again -- for the whole place (`αPLACE`), a sub-node and a feature
    from props_c04 import UNWINDSET
    anode = [3] + ([4, 5, 6, 7] if tier == "thorough" else [[6, 4, 7, 5][seed % 4]])
    for ni in anode:
        nd = G.NODES[ni]
        nm = "c08_step_alpha_node_%s" % nd.lower()
        hs.append(G.H(nm, "step-alpha", "subrule", G.T(HDR + """
fn @name@() {
    // `[α@ND@]` bound on a well-formed donor, applied to a well-formed target
    let d = any_inv_seg(); let t0 = any_inv_seg();
    let sub = mk_sub(RuleType::Substitution);
    let kind = ModKind::Alpha(AlphaMod::Alpha('α'));
    match sub.match_node(d, NodeKind::@nd@, &kind, P) { Ok(v) => assert!(v, "role=first-use-of-node-alpha-matches"), Err(_) => assert!(false, "role=unexpected-error") }
    let mut m = mods_new();
    m.nodes[@ni@] = Some(kind);
    let mut t = t0;
    let r = t.apply_seg_mods(&sub.alphas, m.nodes, m.feats, P, false);
    assert!(r.is_ok(), "role=unexpected-error");
    assert!(inv(&t), "role=invariant-after-alpha-@nd@");
    kani::cover!(raw(&d.place).is_none() && raw(&t0.place).is_some());
    kani::cover!(raw(&d.place).is_some() && t != t0);
    std::mem::forget(sub);
}
""", name=nm, nd=nd, ND=nd.upper(), ni=ni), shared=[G.SUBRULE_SHARED], functions=["SubRule::match_node", "Segment::apply_seg_mods", "Segment::set_node", "Place::set_*", "HashMap::insert/get (real)"],
            symbolic="donor and target bundles satisfying Inv", shape="[α%s] from an Inv donor onto an Inv target" % nd.upper(), unwind=unwind, unwindset=UNWINDSET, stubs=["std::hash::RandomState::new -> fixed keys"], cap_s=1500, weight=5))
    for (fi, iu) in ([(f, u) for f in (15, 16, 20, 24) for u in (False, True)] if tier == "thorough" else [([15, 20, 24, 16][seed % 4], True)]):
        nm = "c08_step_alpha_feat_%02d%s" % (fi, "_inv" if iu else "")
        hs.append(G.H(nm, "step-alpha", "subrule", G.T(HDR + """
fn @name@() {
    let d = any_inv_seg(); let t0 = any_inv_seg();
    let sub = mk_sub(RuleType::Substitution);
    let (nd, mask) = FType::from_usize(@fi@).to_node_mask();
    let r = sub.match_seg_kind(&ModKind::Alpha(AlphaMod::Alpha('α')), d, nd, mask);
    let mut m = mods_new();
    m.feats[@fi@] = Some(ModKind::Alpha(AlphaMod::@ctor@('α')));
    let mut t = t0;
    let r2 = t.apply_seg_mods(&sub.alphas, m.nodes, m.feats, P, false);
    match r { Ok(true) => { assert!(r2.is_ok(), "role=unexpected-error"); assert!(inv(&t), "role=invariant-after-alpha-feature"); }, Ok(false) => { assert!(t == t0, "role=target-untouched-when-unbound"); }, Err(_) => assert!(false, "role=unexpected-error") }
    kani::cover!(t != t0);
    std::mem::forget(sub);
}
""", name=nm, fi=fi, ctor="InvAlpha" if iu else "Alpha"), shared=[G.SUBRULE_SHARED], functions=["SubRule::match_seg_kind", "Segment::apply_seg_mods", "Segment::set_feat", "HashMap::insert/get (real)"],
            symbolic="donor and target bundles satisfying Inv", shape="[%sα%s] from an Inv donor onto an Inv target" % ("-" if iu else "", props_c04.fname(fi)), unwind=unwind, unwindset=UNWINDSET, stubs=["std::hash::RandomState::new -> fixed keys"], cap_s=1500, weight=5))

    # ---- side lemma: under Inv, `[+place]` as the rule matcher reads it == as the alias matcher reads it
    hs.append(G.H("c08_place_lemma", "lemma", "seg", """
#[kani::proof]
fn c08_place_lemma() {
    let s = any_inv_seg();
    let some_sub = s.get_node(NodeKind::Labial).is_some() || s.get_node(NodeKind::Coronal).is_some() || s.get_node(NodeKind::Dorsal).is_some() || s.get_node(NodeKind::Pharyngeal).is_some();
    assert!(s.is_place_some() == some_sub, "role=place-present-iff-some-subnode");
    kani::cover!(some_sub);
    kani::cover!(!some_sub);
}
""", functions=["Segment::is_place_some", "Segment::get_node"], symbolic="all Inv bundles", shape="place present <=> some sub-node present", unwind=None))

    if tier == "thorough":
        # deromaniser path: Word::alias_apply_mods
        for fi in [2, 6, 11, 15, 16, 20, 24]:
            nm = "c08_step_alias_feat_%02d" % fi
            hs.append(G.H(nm, "step-alias-apply", "word", G.T(HDR0 + """
fn @name@() {
    let s = any_inv_seg();
    let w = empty_word();
    let mut m = mods_new();
    m.feats[@fi@] = Some(ModKind::Binary(any_bin()));
    let mut t = s;
    let r = w.alias_apply_mods(&mut t, &m, AliasPosition { kind: crate::alias::AliasKind::Deromaniser, line: 0, start: 0, end: 1 });
    assert!(r.is_ok(), "role=unexpected-error");
    assert!(inv(&t), "role=bundle-invariant-broken");
    kani::cover!(t != s);
    std::mem::forget(w);
}
""", name=nm, fi=fi), functions=["Word::alias_apply_mods"], symbolic="all Inv bundles, polarity", shape="deromaniser [±%s]" % props_c04.fname(fi), unwind=unwind))

    hs.append(G.H("c08_twin_reach", "vacuity-twin", "seg", """
#[kani::proof]
fn c08_twin_reach() {
    let s = any_inv_seg();
    let mut t = s;
    t.set_node(NodeKind::Dorsal, None);
    assert!(false, "role=twin-end-reached");
}
""", functions=["Segment::set_node"], symbolic="all Inv bundles", shape="assert(false) twin (Inv is satisfiable)", expect="fail"))

    return {
        "harnesses": hs, "cap_s": 1200, "jobs": 12,
        "bounds": ["inductive step: pre-state is ANY bundle with Inv (root<=7, laryngeal<=7, place None or (some presence bit and no payload bit of an absent sub-node)), one real operation, Inv asserted after",
                   "operations this run: %d one-slot matrices, %d node+feature matrices, public setters, %d diacritics from diacritics.json, base case %d cardinals" % (n + 5, len(combos), len(dias), len(rows)),
                   "unwind %d; base case unwind %d" % (unwind, len(rows) + 2)],
        "outside": ["'at least one syllable, none empty' and 'tone at most four non-zero digits': maintained by SubRule::transform (deletion/metathesis arms), substitution tail and concat_tone, which exhausted 26-27 GB under CBMC with symbolic positions/tones (VecDeque::remove, u64::to_string + Vec::dedup)",
                    "that rule sequences only ever compose these operations (argued from the code: segments are mutated only through apply_seg_mods / set_node / set_feat / diacritics / copies)",
                    "a later *match* against a bound alpha does not mutate bundles and is not part of the step"],
        "assumptions": ["Inv as defined in harness/common.rs is the reading of the property's last clause", "std::hash::RandomState::new stubbed with fixed keys"],
    }
