"""C05  stress, length and tone modifiers follow the manual's three-way tables (kernel level)."""
import gen_harness as G

STUBS = ["std::hash::RandomState::new -> fixed keys"]
POS = {"first": (0, 1), "middle": (1, 1), "last": (1, 0)}
OPT = {0: "None", 1: "bin(true)", 2: "bin(false)"}          # real modifier slot
ROPT = {0: "None", 1: "Some(true)", 2: "Some(false)"}        # same, for the reference table


def shape_segs(pre, L, post):
    return ", ".join(["x"] * pre + ["a"] * L + ["y"] * post)


def arms9(call, which):
    """9-way branch over {absent,+,-}^2 with *concrete* modifier constructors in every arm, so that CBMC resolves the
    ModKind dispatch per call site (a symbolic Option<ModKind> keeps the alpha arms and their HashMap code alive)."""
    out = []
    for k in range(9):
        a, b = k % 3, k // 3
        mods = "[%s, %s]" % (OPT[a], OPT[b])
        out.append("        %d => %s," % (k, call.replace("@M@", mods)))
    out.append("        _ => { assert!(false); return }")
    return "\n".join(out)


POS_ORDER = ["first", "middle", "last"]


def c05(tier, seed, dst, facts):
    hs = []
    HDR = "#[kani::proof]\n" + G.STUB_RS + "\n#[kani::unwind(8)]"
    HDRB = HDR.replace("unwind(8)", "unwind(%d)" % (facts["ftype_count"] + 2))
    dec = "    let la = match k % 3 { 0 => None, 1 => Some(true), _ => Some(false) };\n    let lb = match k / 3 { 0 => None, 1 => Some(true), _ => Some(false) };\n"
    shapes = [(p, L) for p in POS for L in (1, 2, 3)]

    # ------------------------------------------------------------------ matching: length
    # quick: two of the nine shapes per run, rotating with VERIF_SEED so that every run length and every position comes
    # up (a shape costs 3-6 minutes of solver time: nine real matcher calls merged); thorough: all nine
    ml_rot = [[("last", 3)], [("middle", 2)], [("first", 1)], [("first", 3)], [("middle", 1)]]
    for (p, L) in (shapes if tier == "thorough" else ml_rot[seed % len(ml_rot)]):
        pre, post = POS[p]
        nm = "c05_match_length_%s_%d" % (p, L)
        hs.append(G.H(nm, "match-length", "subrule", G.T(HDR + """
fn @name@() {
    let a = any_seg(); let x = any_seg(); let y = any_seg();
    kani::assume(a != x && a != y);
    let w = word1(syll_of(&[@segs@], any_stress(), kani::any()));
    let sub = mk_sub(RuleType::Substitution);
    let p = SegPos::new(0, @pre@);
    let k: u8 = kani::any();
    kani::assume(k < 9);
@dec@
    let r = match k {
@arms@
    };
    let exp = ref_match_length(@L@, la, lb);
    match r { Ok(v) => assert!(v == exp, "role=match-length-table"), Err(_) => assert!(false, "role=unexpected-error") }
    kani::cover!(exp && k != 0);
    kani::cover!(!exp);
    kani::cover!(k == 4);
    std::mem::forget(sub); std::mem::forget(w);
}
""", name=nm, segs=shape_segs(pre, L, post), pre=pre, L=L, dec=dec,
            arms=arms9("sub.match_supr_mod_seg(&w, &SupraSegs { stress: [None, None], length: @M@, tone: None }, &p)", "length")),
            shared=[G.SUBRULE_SHARED], functions=["SubRule::match_supr_mod_seg", "SubRule::match_seg_length", "SubRule::match_stress", "Word::seg_length_at", "Syllable::get_seg_length_at"],
            symbolic="bundles a, x, y (a != neighbours), stress, tone, the 9 {absent,+,-}^2 combinations of long/overlong", shape="run of %d, %s in its syllable" % (L, p), unwind=8, stubs=STUBS))

    # ------------------------------------------------------------------ matching: stress and tone
    hs.append(G.H("c05_match_stress_seg", "match-stress", "subrule", G.T(HDR + """
fn c05_match_stress_seg() {
    let a = any_seg();
    let st = any_stress();
    let w = word1(syll_of(&[a], st, kani::any()));
    let sub = mk_sub(RuleType::Substitution);
    let p = SegPos::new(0, 0);
    let k: u8 = kani::any();
    kani::assume(k < 9);
@dec@
    let r = match k {
@arms@
    };
    let exp = ref_match_stress(st, la, lb);
    match r { Ok(v) => assert!(v == exp, "role=match-stress-table"), Err(_) => assert!(false, "role=unexpected-error") }
    kani::cover!(exp && k == 1 && st == StressKind::Secondary);
    kani::cover!(!exp && k == 3 && st == StressKind::Primary);
    kani::cover!(exp && k == 8);
    std::mem::forget(sub); std::mem::forget(w);
}
""", dec=dec, arms=arms9("sub.match_supr_mod_seg(&w, &SupraSegs { stress: @M@, length: [None, None], tone: None }, &p)", "stress")),
        shared=[G.SUBRULE_SHARED], functions=["SubRule::match_supr_mod_seg", "SubRule::match_stress"], symbolic="bundle, stress (3), tone, 9 combinations of stress/sec.stress", shape="modifier on a segment", unwind=8, stubs=STUBS))
    hs.append(G.H("c05_match_stress_syll", "match-stress", "subrule", G.T(HDR + """
fn c05_match_stress_syll() {
    // the `%:[..]` path: match_stress / match_tone on the syllable itself
    let st = any_stress();
    let tone: u16 = kani::any();
    let sy = syll_of(&[any_seg()], st, tone);
    let sub = mk_sub(RuleType::Substitution);
    let k: u8 = kani::any();
    kani::assume(k < 9);
@dec@
    let r = match k {
@arms@
    };
    let exp = ref_match_stress(st, la, lb);
    match r { Ok(v) => assert!(v == exp, "role=match-stress-table"), Err(_) => assert!(false, "role=unexpected-error") }
    let t: u16 = kani::any();
    assert!(sub.match_tone(&t, &sy) == (t == tone), "role=match-tone-whole-value");
    kani::cover!(exp && st == StressKind::Secondary && k == 4);
    kani::cover!(t == 0 && tone == 0);
    std::mem::forget(sub); std::mem::forget(sy);
}
""", dec=dec, arms=arms9("sub.match_stress(&@M@, &sy)", "stress")),
        shared=[G.SUBRULE_SHARED], functions=["SubRule::match_stress", "SubRule::match_tone"], symbolic="stress, all u16 tones x all u16 tone arguments, 9 combinations", shape="modifier on a syllable (%)", unwind=8, stubs=STUBS))
    hs.append(G.H("c05_match_tone_seg", "match-tone", "subrule", G.T(HDR + """
fn c05_match_tone_seg() {
    // [tone:n] on a segment matches the whole tone of the owning syllable (0 = none); combined with length and stress
    let a = any_seg(); let y = any_seg();
    kani::assume(a != y);
    let st = any_stress();
    let tone: u16 = kani::any();
    let t: u16 = kani::any();
    let w = word1(syll_of(&[a, a, y], st, tone));
    let sub = mk_sub(RuleType::Substitution);
    let p = SegPos::new(0, 0);
    let k: u8 = kani::any();
    kani::assume(k < 4);
    let (r, exp) = match k {
        0 => (sub.match_supr_mod_seg(&w, &SupraSegs { stress: [None, None], length: [None, None], tone: Some(t) }, &p), t == tone),
        1 => (sub.match_supr_mod_seg(&w, &SupraSegs { stress: [bin(true), None], length: [bin(true), None], tone: Some(t) }, &p), t == tone && ref_match_stress(st, Some(true), None) && ref_match_length(2, Some(true), None)),
        2 => (sub.match_supr_mod_seg(&w, &SupraSegs { stress: [bin(true), bin(false)], length: [bin(true), bin(false)], tone: None }, &p), ref_match_stress(st, Some(true), Some(false)) && ref_match_length(2, Some(true), Some(false))),
        _ => (sub.match_supr_mod_seg(&w, &SupraSegs { stress: [None, bin(true)], length: [None, bin(true)], tone: Some(t) }, &p), t == tone && ref_match_stress(st, None, Some(true)) && ref_match_length(2, None, Some(true))),
    };
    match r { Ok(v) => assert!(v == exp, "role=match-combined-supras"), Err(_) => assert!(false, "role=unexpected-error") }
    kani::cover!(exp && k == 1);
    kani::cover!(exp && k == 0 && t == 0);
    kani::cover!(!exp && k == 0);
    std::mem::forget(sub); std::mem::forget(w);
}
"""), shared=[G.SUBRULE_SHARED], functions=["SubRule::match_supr_mod_seg", "SubRule::match_tone", "SubRule::match_stress", "SubRule::match_seg_length"], symbolic="bundles, stress, tone x tone argument (all u16 pairs)", shape="long segment first in [a a y]; 4 combined modifiers", unwind=8, stubs=STUBS))

    # ------------------------------------------------------------------ setting: length
    # (i) the whole 9-row table per shape, on concrete pairwise-distinct bundles (stress and tone symbolic);
    # (ii) every bundle (symbolic a, x, y) per shape for single rows of the table (one real call per harness: nine
    #      calls on symbolic bundles merge nine symbolic VecDeque states and exhaust 14 GB)
    CSEG = "fn cseg(r: u8, m: u8, l: u8, p: Option<u16>) -> Segment { let mut pl = crate::place::Place::default(); *pl = p; Segment { root: r, manner: m, laryngeal: l, place: pl } }\n"
    CHECK = """
    let exp = ref_set_length(@L@, la, lb);
    let r_ok = r.is_ok();
    match (r, exp) {
        (Ok(lc), Some(nl)) => {
            assert!(sy.segments.len() == @pre@ + nl + @post@, "role=set-length-table");
            assert!(lc as i32 == nl as i32 - @L@, "role=returned-length-change");
            let mut i = 0;
            while i < sy.segments.len() {
                let e = if i < @pre@ { x } else if i < @pre@ + nl { a } else { y };
                assert!(sy.segments[i] == e, "role=set-length-segments");
                i += 1;
            }
            assert!(sy.get_seg_length_at(@pre@) == nl, "role=set-length-readback");
            // the same modifier matches the new state (table level; the real matcher is tied to the table by match-length)
            assert!(ref_match_length(nl, la, lb), "role=set-then-match");
            assert!(sy.stress == st && sy.tone == tone, "role=length-leaves-stress-and-tone");
        }
        (Err(_), None) => { }
        (Ok(_), None) => assert!(false, "role=contradictory-length-not-reported"),
        (Err(_), Some(_)) => assert!(false, "role=unexpected-error"),
    }
"""
    slt_rot = [[("first", 1), ("middle", 2), ("last", 3), ("middle", 3)], [("middle", 1), ("first", 3), ("last", 2), ("middle", 2)]]
    for (p, L) in (shapes if tier == "thorough" else slt_rot[seed % len(slt_rot)]):
        pre, post = POS[p]
        nm = "c05_set_length_table_%s_%d" % (p, L)
        hs.append(G.H(nm, "set-length-table", "syll", G.T(HDR + """
fn @name@() {
    let a = cseg(1, 0x90, 4, Some(0x2340)); let x = cseg(4, 0, 0, Some(0x8000)); let y = cseg(4, 0x84, 0, Some(0x4200));
    let st = any_stress(); let tone: u16 = kani::any();
    let mut sy = syll_of(&[@segs@], st, tone);
    let alphas: RefCell<HashMap<char, Alpha>> = RefCell::new(HashMap::new());
    let k: u8 = kani::any();
    kani::assume(k < 9);
@dec@
    let r = match k {
@arms@
    };
""" + CHECK + """
    kani::cover!(k == 1 && r_ok);
    kani::cover!(k == 5);
    kani::cover!(k == 6 && r_ok);
    kani::cover!(k == 4 && r_ok);
    std::mem::forget(alphas); std::mem::forget(sy);
}
""", name=nm, segs=shape_segs(pre, L, post), pre=pre, post=post, L=L, dec=dec,
            arms=arms9("sy.apply_supras(&alphas, &SupraSegs { stress: [None, None], length: @M@, tone: None }, @pre@, P)".replace("@pre@", str(pre)), "length")),
            shared=[CSEG], functions=["Syllable::apply_supras", "Syllable::get_seg_length_at", "Syllable::apply_syll_mods", "ModKind::as_bool", "VecDeque::insert/remove (real)"],
            symbolic="stress, tone, all 9 combinations of long/overlong (bundles concrete and pairwise distinct)", shape="run of %d, %s in its syllable" % (L, p), unwind=8, stubs=STUBS, weight=3))
    rows_for = {1: [1, 3, 4, 8], 2: [3, 2, 8, 6], 3: [6, 2, 8, 1]}
    for (p, L) in shapes:
        pre, post = POS[p]
        # quick: a fixed menu of (shape, row) pairs that are known to fit in memory, half of it per run (VERIF_SEED parity);
        # (last, 2, row 3) = [-long] on a final long segment exhausted 14 GB and is left to the concrete-bundle table family
        menu = {("first", 1): [1], ("first", 2): [3], ("first", 3): [6], ("middle", 1): [1, 3, 4], ("middle", 2): [3, 2, 8], ("middle", 3): [6, 2, 8], ("last", 1): [1], ("last", 3): [6]}
        if tier == "thorough":
            rows = menu.get((p, L), [])        # the whole menu; rows outside it were not all measured (one exhausted 14 GB)
        else:
            rows = [r for i, r in enumerate(menu.get((p, L), [])) if (i + seed + L) % 3 == 0 and (p == "middle" or (seed + L) % 2 == 0)]
        for k in rows:
            la, lb = k % 3, k // 3
            nm = "c05_set_length_any_%s_%d_row%d" % (p, L, k)
            hs.append(G.H(nm, "set-length-all-bundles", "syll", G.T(HDR + """
fn @name@() {
    let a = any_seg(); let x = any_seg(); let y = any_seg();
    kani::assume(a != x && a != y);
    let st = any_stress(); let tone: u16 = kani::any();
    let mut sy = syll_of(&[@segs@], st, tone);
    let alphas: RefCell<HashMap<char, Alpha>> = RefCell::new(HashMap::new());
    let la: Option<bool> = @la@; let lb: Option<bool> = @lb@;
    let r = sy.apply_supras(&alphas, &SupraSegs { stress: [None, None], length: [@ma@, @mb@], tone: None }, @pre@, P);
""" + CHECK + """
    kani::cover!(r_ok == exp.is_some());
    std::mem::forget(alphas); std::mem::forget(sy);
}
""", name=nm, segs=shape_segs(pre, L, post), pre=pre, post=post, L=L, la=ROPT[la], lb=ROPT[lb], ma=OPT[la], mb=OPT[lb]),
                functions=["Syllable::apply_supras", "Syllable::get_seg_length_at", "Syllable::apply_syll_mods", "VecDeque::insert/remove (real)"],
                symbolic="bundles a, x, y (a != neighbours; 2^120), stress, tone", shape="run of %d, %s; long=%s overlong=%s" % (L, p, ROPT[la], ROPT[lb]), unwind=8, stubs=STUBS, weight=2))

    # ------------------------------------------------------------------ setting: stress and tone
    hs.append(G.H("c05_set_stress_tone", "set-stress-tone", "syll", G.T(HDR + """
fn c05_set_stress_tone() {
    let a = any_seg(); let b = any_seg();
    let st = any_stress(); let tone: u16 = kani::any();
    let mut sy = syll_of(&[a, b], st, tone);
    let alphas: RefCell<HashMap<char, Alpha>> = RefCell::new(HashMap::new());
    let nt: Option<u16> = if kani::any() { Some(kani::any()) } else { None };
    let k: u8 = kani::any();
    kani::assume(k < 9);
@dec@
    let r = match k {
@arms@
    };
    let exp = ref_set_stress(st, la, lb);
    match (r, exp) {
        (Ok(()), Some(ns)) => {
            assert!(sy.stress == ns, "role=set-stress-table");
            assert!(ref_match_stress(ns, la, lb), "role=set-then-match");
            assert!(sy.tone == match nt { Some(t) => t, None => tone }, "role=set-tone-whole-value");
            assert!(sy.segments.len() == 2 && sy.segments[0] == a && sy.segments[1] == b, "role=stress-tone-leave-segments");
        }
        (Err(_), None) => { assert!(sy.segments.len() == 2 && sy.segments[0] == a && sy.segments[1] == b, "role=stress-tone-leave-segments"); }
        (Ok(_), None) => assert!(false, "role=contradictory-stress-not-reported"),
        (Err(_), Some(_)) => assert!(false, "role=unexpected-error"),
    }
    kani::cover!(k == 1 && st == StressKind::Secondary);
    kani::cover!(k == 5);
    kani::cover!(k == 6 && st == StressKind::Secondary);
    kani::cover!(nt == Some(0) && tone != 0);
    std::mem::forget(alphas); std::mem::forget(sy);
}
""", dec=dec, arms=arms9("sy.apply_syll_mods(&alphas, &SupraSegs { stress: @M@, length: [None, None], tone: nt }, P)", "stress")),
        functions=["Syllable::apply_syll_mods", "ModKind::as_bool"], symbolic="stress, all u16 tones, Option<u16> new tone, 9 combinations of stress/sec.stress, two bundles", shape="syllable [a b]", unwind=8, stubs=STUBS))

    combos = [("prim_short", "[bin(true), None]", "[bin(false), None]", "None", 1, "StressKind::Primary", "tone"),
              ("sec_overlong_tone", "[None, bin(true)]", "[None, bin(true)]", "Some(nt)", 3, "StressKind::Secondary", "nt"),
              ("unstr_long_tone", "[bin(false), bin(false)]", "[bin(true), None]", "Some(nt)", 2, "StressKind::Unstressed", "nt")]
    for (tag, mst, mln, mtone, el, es, et) in combos:
        nm = "c05_set_combined_" + tag
        hs.append(G.H(nm, "set-combined", "syll", G.T(HDR + """
fn @name@() {
    // length, stress and tone in one output matrix: each follows its own table, none disturbs the others
    let a = any_seg(); let x = any_seg(); let y = any_seg();
    kani::assume(a != x && a != y);
    let st = any_stress(); let tone: u16 = kani::any(); let nt: u16 = kani::any();
    let mut sy = syll_of(&[x, a, a, y], st, tone);
    let alphas: RefCell<HashMap<char, Alpha>> = RefCell::new(HashMap::new());
    let r = sy.apply_supras(&alphas, &SupraSegs { stress: @mst@, length: @mln@, tone: @mtone@ }, 1, P);
    let el: usize = @el@;
    match r { Ok(lc) => assert!(lc as i32 == el as i32 - 2, "role=returned-length-change"), Err(_) => assert!(false, "role=unexpected-error") }
    assert!(sy.segments.len() == 2 + el && sy.segments[0] == x && sy.segments[1] == a && sy.segments[el] == a && sy.segments[el + 1] == y, "role=set-length-segments");
    assert!(sy.stress == @es@, "role=set-stress-table");
    assert!(sy.tone == @et@, "role=set-tone-whole-value");
    kani::cover!(st == StressKind::Secondary && tone != nt);
    std::mem::forget(alphas); std::mem::forget(sy);
}
""", name=nm, mst=mst, mln=mln, mtone=mtone, el=el, es=es, et=et), functions=["Syllable::apply_supras", "Syllable::apply_syll_mods"], symbolic="bundles, stress, tones", shape="[x a a y], output matrix " + tag, unwind=8, stubs=STUBS, weight=2))

    # ------------------------------------------------------------------ length modifiers on an IPA *input* element
    # `a:[-long]` etc. in the input of a rule: SubRule::input_match_ipa -> match_ipa_with_modifiers (the IPA's own features
    # joined with the modifiers) -> match_modifiers -> match_supr_mod_seg; whatever the outcome, the cursor must be left
    # on the LAST copy of the run (the caller steps once more), and a capture is recorded iff the element matched.
    # The rule's segment is concrete (all 26 + 8 slots of the joined matrix are then concrete, R1); the neighbours are symbolic.
    HDRA = HDR.replace("unwind(8)", "unwind(%d)" % (facts["ftype_count"] + 2))
    ipa_shapes = [(L, k) for L in (1, 2, 3) for k in range(4)] if tier == "thorough" else [[(3, 0)], [(3, 2)], [(2, 3)]][seed % 3]
    for (L, k) in ipa_shapes:
        la, lb = [("Some(false)", "None"), ("Some(true)", "None"), ("None", "Some(false)"), ("None", "Some(true)")][k]
        arr = ["[bin(false), None]", "[bin(true), None]", "[None, bin(false)]", "[None, bin(true)]"][k]
        tag = ["minus_long", "plus_long", "minus_overlong", "plus_overlong"][k]
        nm = "c05_input_ipa_%d_%s" % (L, tag)
        h = G.H(nm, "input-ipa-length", "subrule", G.T(HDRA + """
fn @name@() {
    let a = cseg(1, 0x90, 4, Some(0x2340));
    let x = any_seg(); let y = any_seg();
    kani::assume(a != x && a != y);
    let st = any_stress(); let tone: u16 = kani::any();
    let w = word1(syll_of(&[@segs@], st, tone));
    let sub = mk_sub(RuleType::Substitution);
    let mut caps: Vec<MatchElement> = Vec::new();
    let mut pos = SegPos::new(0, 1);
    let mut m = mods_new();
    m.suprs.length = @arr@;
    let r = sub.input_match_ipa(&mut caps, &a, &Some(m), &w, &mut pos, P);
    let exp = ref_match_length(@L@, @la@, @lb@);
    match r { Ok(v) => assert!(v == exp, "role=input-ipa-length-table"), Err(_) => assert!(false, "role=unexpected-error") }
    assert!(pos == SegPos::new(0, @L@), "role=cursor-on-last-copy-of-run");
    assert!(caps.len() == if exp { 1 } else { 0 }, "role=capture-recorded-iff-matched");
    kani::cover!(true);
    std::mem::forget(sub); std::mem::forget(w); std::mem::forget(caps);
}
""", name=nm, segs=", ".join(["x"] + ["a"] * L + ["y"]), arr=arr, L=L, la=la, lb=lb), shared=[G.SUBRULE_SHARED, CSEG],
            functions=["SubRule::input_match_ipa", "SubRule::match_ipa_with_modifiers", "Segment::as_modifiers", "SubRule::match_modifiers", "SubRule::match_supr_mod_seg", "SubRule::match_seg_length", "Word::seg_length_at"],
            symbolic="neighbour bundles x, y (!= a), stress, tone; the rule's segment a is concrete", shape="[x a*%d y], input element a:[%s]" % (L, tag.replace("_", " ")), unwind=facts["ftype_count"] + 2, stubs=STUBS, weight=3)
        h["array_loops"] = True       # Segment::as_modifiers really runs core::array::from_fn over the 26 feature slots
        hs.append(h)
    hs.append(G.H("c05_input_ipa_plain_3", "input-ipa-length", "subrule", G.T(HDR + """
fn c05_input_ipa_plain_3() {
    // unmodified IPA input element met at an overlong run: bit equality decides, the cursor ends on the last copy
    let a = any_seg(); let c = any_seg();
    let x = any_seg(); let y = any_seg();
    kani::assume(a != x && a != y);
    let w = word1(syll_of(&[x, a, a, a, y], any_stress(), kani::any()));
    let sub = mk_sub(RuleType::Substitution);
    let mut caps: Vec<MatchElement> = Vec::new();
    let mut pos = SegPos::new(0, 1);
    let r = sub.input_match_ipa(&mut caps, &c, &None, &w, &mut pos, P);
    match r { Ok(v) => assert!(v == (c == a), "role=input-ipa-bit-equality"), Err(_) => assert!(false, "role=unexpected-error") }
    assert!(pos == SegPos::new(0, 3), "role=cursor-on-last-copy-of-run");
    assert!(caps.len() == if c == a { 1 } else { 0 }, "role=capture-recorded-iff-matched");
    kani::cover!(c == a); kani::cover!(c != a);
    std::mem::forget(sub); std::mem::forget(w); std::mem::forget(caps);
}
"""), shared=[G.SUBRULE_SHARED], functions=["SubRule::input_match_ipa", "Word::seg_length_at"], symbolic="4 bundles (2^160), stress, tone", shape="[x a a a y], input element c", unwind=8, stubs=STUBS, weight=2))

    # ------------------------------------------------------------------ stress / tone modifiers on `%` (a whole syllable) as input and as context element
    for (which, call, extra) in [("input", "sub.input_match_syll(&mut caps, &mut si, &@M@, &tn, &None, &w, &mut pos)", True), ("context", "sub.context_match_syll(&@M@, &tn, &None, &w, &mut pos, true)", False)]:
        nm = "c05_syll_element_%s" % which
        hs.append(G.H(nm, "match-syllable-element", "subrule", G.T(HDR + """
fn @name@() {
    // `%:[±stress, ±sec.stress, tone:n]` met at the start of the second syllable of [x0].[x1 x2] and in its middle
    let st = any_stress(); let tone: u16 = kani::any();
    let mut w = empty_word();
    w.syllables.push(syll_of(&[any_seg()], any_stress(), kani::any()));
    w.syllables.push(syll_of(&[any_seg(), any_seg()], st, tone));
    let sub = mk_sub(RuleType::Substitution);
    let tn: Option<u16> = if kani::any() { Some(kani::any()) } else { None };
    let mid: bool = kani::any();
    let mut pos = SegPos::new(1, if mid { 1 } else { 0 });
    let mut caps: Vec<MatchElement> = Vec::new();
    let mut si = 0usize;
    let k: u8 = kani::any();
    kani::assume(k < 9);
@dec@
    let r = match k {
@arms@
    };
    let exp = !mid && ref_match_stress(st, la, lb) && match tn { Some(t) => t == tone, None => true };
    match r { Ok(v) => assert!(v == exp, "role=syllable-element-stress-tone-table"), Err(_) => assert!(false, "role=unexpected-error") }
    if exp { assert!(pos == SegPos::new(2, 0), "role=cursor-after-syllable-element"); }
    @capcheck@
    kani::cover!(exp && k == 6);
    kani::cover!(!exp && !mid && k == 3 && st == StressKind::Primary);
    kani::cover!(exp && tn == Some(0));
    kani::cover!(mid);
    std::mem::forget(sub); std::mem::forget(w); std::mem::forget(caps);
}
""", name=nm, dec=dec, arms=arms9(call, "stress"), capcheck='assert!(caps.len() == if exp { 1 } else { 0 } && si == if exp { 1 } else { 0 }, "role=capture-recorded-iff-matched");' if extra else ""),
            shared=[G.SUBRULE_SHARED], functions=["SubRule::%s_match_syll" % which, "SubRule::match_stress", "SubRule::match_tone", "Word::in_bounds"],
            symbolic="stress (3), all u16 tones, optional tone argument, 9 combinations of stress/sec.stress, position (syllable start / middle), bundles", shape="%% as %s element on [x0].[x1 x2]" % which, unwind=8, stubs=STUBS, weight=2))

    # ------------------------------------------------------------------ the run-length primitive itself, nothing assumed about the bundles
    for n_seg in ((3, 4, 5) if tier == "thorough" else (4,)):
        xs = ["x%d" % i for i in range(n_seg)]
        nm = "c05_seg_length_any_%d" % n_seg
        hs.append(G.H(nm, "run-length", "syll", G.T(HDR + """
fn @name@() {
    // length of the run that STARTS at pos = 1 + number of immediately following segments bit-equal to it (no assumption:
    // neighbours may be equal, the position may be in the middle of a longer run)
@decl@
    let sy = syll_of(&[@xs@], any_stress(), kani::any());
    let arr = [@xs@];
    let pos: usize = kani::any();
    kani::assume(pos < @n@);
    let mut exp = 1usize;
    let mut i = pos + 1;
    let mut run = true;
    while i < @n@ { if run && arr[i] == arr[pos] { exp += 1; } else { run = false; } i += 1; }
    assert!(sy.get_seg_length_at(pos) == exp, "role=run-length");
    kani::cover!(exp == @n@);
    kani::cover!(exp == 1 && pos + 1 < @n@);
    kani::cover!(pos > 0 && arr[pos - 1] == arr[pos] && exp > 1);
    std::mem::forget(sy);
}
""", name=nm, n=n_seg, xs=", ".join(xs), decl="\n".join("    let %s = any_seg();" % x for x in xs)), functions=["Syllable::get_seg_length_at"],
            symbolic="%d bundles (no distinctness assumed), symbolic position" % n_seg, shape="syllable of %d segments" % n_seg, unwind=8, stubs=STUBS))

    # ------------------------------------------------------------------ replace_segment / insert_segment
    for L in ((1, 2, 3) if tier == "thorough" else (2, 3)):
        for (tag, mods, nl) in [("plain", "None", 1), ("long", "Some(ml)", 2), ("overlong", "Some(mo)", 3)]:
            if tier == "quick" and (L, tag) not in [(2, "plain"), (3, "plain"), (2, "overlong"), (3, "long")]:
                continue
            nm = "c05_replace_segment_%d_%s" % (L, tag)
            hs.append(G.H(nm, "replace-segment", "syll", G.T(HDRB + """
fn @name@() {
    // substituting a (possibly long) segment: the run collapses to ONE copy of the new segment, then the output
    // modifiers decide the new length
    @segdecl@
    let st = any_stress(); let tone: u16 = kani::any();
    let mut sy = syll_of(&[@segs@], st, tone);
    let alphas: RefCell<HashMap<char, Alpha>> = RefCell::new(HashMap::new());
    let mut ml = mods_new(); ml.suprs.length = [bin(true), None];
    let mut mo = mods_new(); mo.suprs.length = [None, bin(true)];
    let r = sy.replace_segment(1, &b, &@mods@, &alphas, P);
    let nl: usize = @nl@;
    match r { Ok(lc) => assert!(lc as i32 == nl as i32 - @L@, "role=returned-length-change"), Err(_) => assert!(false, "role=unexpected-error") }
    assert!(sy.segments.len() == 2 + nl, "role=replace-collapses-run");
    let mut i = 0;
    while i < sy.segments.len() {
        let e = if i < 1 { x } else if i < 1 + nl { b } else { y };
        assert!(sy.segments[i] == e, "role=replace-segments");
        i += 1;
    }
    assert!(sy.stress == st && sy.tone == tone, "role=length-leaves-stress-and-tone");
    kani::cover!(b != a);
    std::mem::forget(alphas); std::mem::forget(sy);
}
""", name=nm, segs=shape_segs(1, L, 1), L=L, mods=mods, nl=nl,
                segdecl=("let a = any_seg(); let x = any_seg(); let y = any_seg(); let b = any_seg();\n    kani::assume(a != x && a != y && b != x && b != y);" if tag == "plain" else
                         "let a = cseg(1, 0x90, 4, Some(0x2340)); let x = cseg(4, 0, 0, Some(0x8000)); let y = cseg(4, 0x84, 0, Some(0x4200)); let b = cseg(3, 0xc0, 4, Some(0x2028));")),
                shared=[CSEG], functions=["Syllable::replace_segment", "Syllable::apply_seg_mods", "Syllable::apply_supras", "Segment::apply_seg_mods"],
                symbolic=("bundles a, b, x, y (2^160), stress, tone" if tag == "plain" else "stress, tone (bundles concrete and pairwise distinct: with a length modifier the symbolic-bundle variant exhausts memory)"), shape="[x a*%d y], replace the run, output modifier %s" % (L, tag), unwind=facts["ftype_count"] + 2, stubs=STUBS, weight=4))

    # reference-model sanity (oracle lemma): set-then-match holds in the tables themselves
    hs.append(G.H("c05_ref_tables_lemma", "oracle-lemma", "syll", """
#[kani::proof]
fn c05_ref_tables_lemma() {
    let len: usize = kani::any(); kani::assume(len >= 1 && len <= 3);
    let la: Option<bool> = kani::any(); let lb: Option<bool> = kani::any();
    if let Some(nl) = ref_set_length(len, la, lb) { assert!(nl >= 1 && nl <= 3 && ref_match_length(nl, la, lb), "role=oracle-set-then-match-length"); }
    else { assert!(la == Some(false) && lb == Some(true), "role=oracle-contradiction-length"); }
    let st = any_stress();
    if let Some(ns) = ref_set_stress(st, la, lb) { assert!(ref_match_stress(ns, la, lb), "role=oracle-set-then-match-stress"); }
    else { assert!(la == Some(false) && lb == Some(true), "role=oracle-contradiction-stress"); }
    // the prose of the property: [+long] alone lengthens a short segment to long, [+stress] alone gives primary
    assert!(ref_set_length(1, Some(true), None) == Some(2) && ref_set_stress(StressKind::Unstressed, Some(true), None) == Some(StressKind::Primary), "role=oracle-prose");
    kani::cover!(ref_set_length(len, la, lb).is_none());
}
""", functions=["(reference tables only)"], symbolic="all table inputs", shape="oracle self-consistency", unwind=None))

    hs.append(G.H("c05_twin_reach", "vacuity-twin", "syll", G.T(HDR + """
fn c05_twin_reach() {
    let a = any_seg(); let x = any_seg();
    kani::assume(a != x);
    let mut sy = syll_of(&[x, a, a], any_stress(), kani::any());
    let alphas: RefCell<HashMap<char, Alpha>> = RefCell::new(HashMap::new());
    let r = sy.apply_supras(&alphas, &SupraSegs { stress: [None, None], length: [bin(true), bin(true)], tone: None }, 1, P);
    kani::assume(r.is_ok());
    std::mem::forget(alphas); std::mem::forget(sy);
    assert!(false, "role=twin-end-reached");
}
"""), functions=["Syllable::apply_supras"], symbolic="as set-length", shape="assert(false) twin", expect="fail", unwind=8, stubs=STUBS))

    return {
        "harnesses": hs, "cap_s": 900 if tier == "quick" else 1800, "jobs": 10,
        "bounds": ["syllable shapes: run length 1..3, run first / middle / last in its syllable, at most one neighbour each side", "unwind 8 (runs <= 3, syllables <= 5 segments); replace_segment shapes unwind FType::count()+2",
                   "modifier combinations: all 9 = {absent,+,-}^2 per table, chosen by a symbolic selector, each arm built with concrete constructors"],
        "outside": ["the cursor arithmetic of SubRule::apply/substitution (subrule.rs:1394-1415, 1975-1978): the defect quoted in the property (`V > [+long]` on an already long vowel) lives there and is NOT visible to these kernels; whole-rule application does not finish under CBMC",
                    "alpha-valued length/stress modifiers (covered by C07)", "element kinds IPA / group / `%` as *parsed* inputs: they reach the same kernels (match_modifiers, match_stress, match_tone), which are what is encoded"],
        "assumptions": ["neighbours of the run differ from it (the property's own side condition: equal neighbours are length)", "reference tables ref_match_length/ref_match_stress/ref_set_length/ref_set_stress in harness/common.rs, written from the manual's tables; their self-consistency is harness c05_ref_tables_lemma",
                        "std::hash::RandomState::new stubbed with fixed keys"],
    }
