"""C07  variables and alphas reproduce exactly what they captured (kernel level: capture -> write-back pairs)."""
import gen_harness as G
import props_c04
from props_c04 import UNWINDSET, fname

STUBS = ["std::hash::RandomState::new -> fixed keys"]


CSEG = "fn cseg(r: u8, m: u8, l: u8, p: Option<u16>) -> Segment { let mut pl = crate::place::Place::default(); *pl = p; Segment { root: r, manner: m, laryngeal: l, place: pl } }\n"


def c07(tier, seed, dst, facts):
    n = facts["ftype_count"]
    unwind = n + 2
    hs = []
    HDR = "#[kani::proof]\n" + G.STUB_RS + "\n#[kani::unwind(%d)]" % unwind
    per_node = [2, 6, 11, 15, 16, 20, 24]

    # ---------------------------------------------------------------- feature alphas: [αF] > [αF] on the same segment
    # quick: one plain and one inverted shape per run, rotating with VERIF_SEED; the inverted one always on a feature of a
    # place sub-node (that is where "absent sub-node matches neither" and -α interact)
    shapes = [(f, False) for f in ([[15, 20, 16, 24, 11, 2, 6][seed % 7]] if tier == "quick" else range(n))] + [(f, True) for f in ([[16, 20, 15, 24][seed % 4]] if tier == "quick" else per_node)]
    for (f, inv_) in shapes:
        nm = "c07_feat_alpha_roundtrip_%02d%s" % (f, "_inv" if inv_ else "")
        ctor = "InvAlpha" if inv_ else "Alpha"
        hs.append(G.H(nm, "feature-alpha-roundtrip", "subrule", G.T(HDR + """
fn @name@() {
    // `[@k@@fname@] > [@k@@fname@]`: value read by the real matcher, written back by the real applier, same segment
    let s = any_seg();
    let sub = mk_sub(RuleType::Substitution);
    let (nd, mask) = FType::from_usize(@f@).to_node_mask();
    let kind = ModKind::Alpha(AlphaMod::@ctor@('α'));
    let r = sub.match_seg_kind(&kind, s, nd, mask);
    let mut m = mods_new();
    m.feats[@f@] = Some(kind);
    let mut t = s;
    let r2 = t.apply_seg_mods(&sub.alphas, m.nodes, m.feats, P, false);
    match r {
        Ok(true) => {
            assert!(ref_feat(&s, @f@).is_some(), "role=capture-outcome");
            assert!(r2.is_ok(), "role=unexpected-error");
            assert!(same_features(&t, &s), "role=feature-alpha-roundtrip");
            if inv(&s) { assert!(t == s, "role=feature-alpha-roundtrip-bits"); }
        }
        Ok(false) => { assert!(ref_feat(&s, @f@).is_none(), "role=capture-outcome"); assert!(t == s, "role=unmatched-segment-changed"); }
        Err(_) => assert!(false, "role=unexpected-error"),
    }
    kani::cover!(ref_feat(&s, @f@) == Some(true));
    kani::cover!(ref_feat(&s, @f@) == Some(false));
    std::mem::forget(sub);
}
""", name=nm, f=f, fname=fname(f), ctor=ctor, k="-α" if inv_ else "α"), shared=[G.SUBRULE_SHARED],
            functions=["SubRule::match_seg_kind", "Segment::apply_seg_mods", "Alpha::as_binary", "HashMap::insert/get (real hashbrown + SipHash)"],
            symbolic="all bundles (2^40)", shape="[%s%s] > [%s%s]" % ("-α" if inv_ else "α", fname(f), "-α" if inv_ else "α", fname(f)), unwind=unwind, unwindset=UNWINDSET, stubs=STUBS, cap_s=2400, weight=5))

    # ---------------------------------------------------------------- node alphas
    for ni in ([3] if tier == "quick" else range(8)):
        nd = G.NODES[ni]
        nm = "c07_node_alpha_roundtrip_%s" % nd.lower()
        hs.append(G.H(nm, "node-alpha-roundtrip", "subrule", G.T(HDR + """
fn @name@() {
    // `[α@ND@] > [α@ND@]` on the same segment
    let s = any_seg();
    let sub = mk_sub(RuleType::Substitution);
    let kind = ModKind::Alpha(AlphaMod::Alpha('α'));
    match sub.match_node(s, NodeKind::@nd@, &kind, P) { Ok(v) => assert!(v, "role=first-use-of-node-alpha-matches"), Err(_) => assert!(false, "role=unexpected-error") }
    let mut m = mods_new();
    m.nodes[@ni@] = Some(kind);
    let mut t = s;
    let r2 = t.apply_seg_mods(&sub.alphas, m.nodes, m.feats, P, false);
    assert!(r2.is_ok(), "role=unexpected-error");
    assert!(same_features(&t, &s), "role=node-alpha-roundtrip");
    if inv(&s) { assert!(t == s, "role=node-alpha-roundtrip-bits"); }
    kani::cover!(inv(&s) && raw(&s.place).is_some());
    kani::cover!(raw(&s.place).is_none());
    std::mem::forget(sub);
}
""", name=nm, nd=nd, ND=nd.upper(), ni=ni), shared=[G.SUBRULE_SHARED], functions=["SubRule::match_node", "Segment::apply_seg_mods", "Segment::set_node", "Alpha::as_node/as_place", "HashMap::insert/get (real)"],
            symbolic="all bundles", shape="[α%s] > [α%s]" % (nd.upper(), nd.upper()), unwind=unwind, unwindset=UNWINDSET, stubs=STUBS, cap_s=2400, weight=5))

    # ---------------------------------------------------------------- suprasegmental alphas: stress
    stress_shapes = [("stress", "[Some(k), None]", False), ("stress_inv", "[Some(k), None]", True), ("secstress", "[None, Some(k)]", False), ("secstress_inv", "[None, Some(k)]", True)]
    if tier == "quick":
        # `αstress` (it carries the known finding) and `-αsecstress` are always run; `-αstress` / `αsecstress` alternate
        stress_shapes = [stress_shapes[0], stress_shapes[3], [stress_shapes[1], stress_shapes[2]][seed % 2]]
    for (tag, arr, inv_) in stress_shapes:
        nm = "c07_supra_alpha_roundtrip_" + tag
        hs.append(G.H(nm, "supra-alpha-roundtrip", "subrule", G.T(HDR + """
fn @name@() {
    // `%:[α@what@] > [α@what@]`: read by match_stress, written back by apply_syll_mods
    let st = any_stress(); let tone: u16 = kani::any();
    let mut sy = syll_of(&[any_seg()], st, tone);
    let sub = mk_sub(RuleType::Substitution);
    let k = ModKind::Alpha(AlphaMod::@ctor@('α'));
    let arr: [Option<ModKind>; 2] = @arr@;
    match sub.match_stress(&arr, &sy) { Ok(v) => assert!(v, "role=first-use-of-supra-alpha-matches"), Err(_) => assert!(false, "role=unexpected-error") }
    let r = sy.apply_syll_mods(&sub.alphas, &SupraSegs { stress: arr, length: [None, None], tone: None }, P);
    assert!(r.is_ok(), "role=unexpected-error");
    if st == StressKind::Secondary { assert!(sy.stress == st, "role=@what@-alpha-roundtrip-secondary"); }
    else if st == StressKind::Primary { assert!(sy.stress == st, "role=@what@-alpha-roundtrip-primary"); }
    else { assert!(sy.stress == st, "role=@what@-alpha-roundtrip-unstressed"); }
    assert!(sy.tone == tone && sy.segments.len() == 1, "role=supra-alpha-frame");
    kani::cover!(st == StressKind::Primary);
    kani::cover!(st == StressKind::Unstressed);
    std::mem::forget(sub); std::mem::forget(sy);
}
""", name=nm, arr=arr, ctor="InvAlpha" if inv_ else "Alpha", what=tag.replace("_inv", "")), shared=[G.SUBRULE_SHARED],
            functions=["SubRule::match_stress", "Syllable::apply_syll_mods", "ModKind::as_bool", "Alpha::as_binary", "HashMap::insert/get (real)"],
            symbolic="stress (3), tone, one bundle", shape="%%:[%sα%s] > [%sα%s]" % ("-" if inv_ else "", tag.replace("_inv", ""), "-" if inv_ else "", tag.replace("_inv", "")), unwind=unwind, unwindset=UNWINDSET, stubs=STUBS, cap_s=2400, weight=4))

    # ---------------------------------------------------------------- suprasegmental alphas: length (capture side)
    # The full round trip `[αlong] > [αlong]` (match_seg_length, then apply_supras reading α back) ran past 40 min / 10 GB:
    # the value read back from the map is symbolic to the symbolic executor, so both the lengthening and the shortening arm
    # of apply_supras are explored on the VecDeque and merged. What is decided instead is the capture: the real matcher
    # binds exactly the boolean that the same modifier, used as a binary one, would need in order to reproduce the length
    # (the write-back of a *binary* length modifier is C05's set-length family).
    len_shapes = [(2, "overlong", False), [(1, "long", True), (2, "long", False), (3, "overlong", True)][seed % 3]] if tier == "quick" else [(L, tag, iv) for L in (1, 2, 3) for tag in ("long", "overlong") for iv in (False, True)]
    for (L, tag, iv) in len_shapes:
        nm = "c07_supra_alpha_capture_%s_%d%s" % (tag, L, "_inv" if iv else "")
        segs = ", ".join(["x"] + ["a"] * L + ["y"])
        arr = "[Some(k), None]" if tag == "long" else "[None, Some(k)]"
        truth = ("%d > 1" % L) if tag == "long" else ("%d > 2" % L)
        hs.append(G.H(nm, "supra-alpha-capture", "subrule", G.T(HDR + """
fn @name@() {
    // `[@k@@tag@]` met for the first time on a segment of length @L@: α is bound so that re-applying it reproduces the length
    let a = any_seg(); let x = any_seg(); let y = any_seg();
    kani::assume(a != x && a != y);
    let w = word1(syll_of(&[@segs@], any_stress(), kani::any()));
    let sub = mk_sub(RuleType::Substitution);
    let k = ModKind::Alpha(AlphaMod::@ctor@('α'));
    let arr: [Option<ModKind>; 2] = @arr@;
    match sub.match_seg_length(&w, &arr, &SegPos::new(0, 1)) { Ok(v) => assert!(v, "role=first-use-of-supra-alpha-matches"), Err(_) => assert!(false, "role=unexpected-error") }
    let got = match sub.alphas.borrow().get(&'α') { Some(Alpha::Supra(b)) => Some(*b), _ => None };
    let is_set: bool = @truth@;
    assert!(got == Some(if @iv@ { !is_set } else { is_set }), "role=length-alpha-captures-@tag@-value");
    kani::cover!(true);
    std::mem::forget(sub); std::mem::forget(w);
}
""", name=nm, tag=tag, L=L, segs=segs, arr=arr, truth=truth, iv=str(iv).lower(), ctor="InvAlpha" if iv else "Alpha", k="-α" if iv else "α"), shared=[G.SUBRULE_SHARED],
            functions=["SubRule::match_seg_length", "Word::seg_length_at", "HashMap::insert/get (real)"], symbolic="bundles a, x, y (a != neighbours), stress, tone",
            shape="[x a*%d y], [%sα%s] captured" % (L, "-" if iv else "", tag), unwind=unwind, unwindset=UNWINDSET, stubs=STUBS, cap_s=2400, weight=6))

    # ---------------------------------------------------------------- segment variables
    hs.append(G.H("c07_var_capture_context", "variable-capture", "subrule", G.T(HDR + """
fn c07_var_capture_context() {
    // `[]=1` in a context stores exactly the bundle under the cursor
    let a = any_seg(); let x = any_seg();
    kani::assume(a != x);
    let w = word1(syll_of(&[x, a], any_stress(), kani::any()));
    let sub = mk_sub(RuleType::Substitution);
    let m = mods_new();
    let mut pos = SegPos::new(0, 1);
    let r = sub.context_match_matrix(&m, &Some(1), &w, &mut pos, P);
    match r { Ok(v) => assert!(v, "role=empty-matrix-matches"), Err(_) => assert!(false, "role=unexpected-error") }
    let got = match sub.variables.borrow().get(&1) { Some(VarKind::Segment(s)) => Some(*s), _ => None };
    assert!(got == Some(a), "role=variable-stores-exact-bundle");
    assert!(pos == SegPos::new(1, 0), "role=cursor-after-capture");
    kani::cover!(raw(&a.place).is_some());
    std::mem::forget(sub); std::mem::forget(w);
}
"""), shared=[G.SUBRULE_SHARED], functions=["SubRule::context_match_matrix", "SubRule::match_modifiers", "HashMap<usize,VarKind>::insert/get (real)"], symbolic="bundles a, x; stress, tone",
        shape="[x a], `[]=1` at a", unwind=unwind, unwindset=UNWINDSET, stubs=STUBS, cap_s=2400, weight=6))
    hs.append(G.H("c07_var_capture_input", "variable-capture", "subrule", G.T(HDR + """
fn c07_var_capture_input() {
    // `[]=1` in the input stores exactly the bundle under the cursor and records that position
    let a = any_seg(); let x = any_seg();
    kani::assume(a != x);
    let w = word1(syll_of(&[x, a], any_stress(), kani::any()));
    let sub = mk_sub(RuleType::Substitution);
    let m = mods_new();
    let mut pos = SegPos::new(0, 1);
    let mut caps: Vec<MatchElement> = Vec::new();
    let r = sub.input_match_matrix(&mut caps, &m, &Some(1), &w, &mut pos, P);
    match r { Ok(v) => assert!(v, "role=empty-matrix-matches"), Err(_) => assert!(false, "role=unexpected-error") }
    let got = match sub.variables.borrow().get(&1) { Some(VarKind::Segment(s)) => Some(*s), _ => None };
    assert!(got == Some(a), "role=variable-stores-exact-bundle");
    assert!(caps.len() == 1, "role=capture-recorded");
    match caps[0] { MatchElement::Segment(p, None) => assert!(p == SegPos::new(0, 1), "role=capture-position"), _ => assert!(false, "role=capture-recorded") }
    kani::cover!(raw(&a.place).is_some());
    std::mem::forget(sub); std::mem::forget(w); std::mem::forget(caps);
}
"""), shared=[G.SUBRULE_SHARED], functions=["SubRule::input_match_matrix", "SubRule::match_modifiers", "HashMap<usize,VarKind>::insert/get (real)"], symbolic="bundles a, x; stress, tone",
        shape="[x a], `[]=1` as input at a", unwind=unwind, unwindset=UNWINDSET, stubs=STUBS, cap_s=2400, weight=6))
    hs.append(G.H("c07_var_match_context", "variable-match", "subrule", G.T(HDR + """
fn c07_var_match_context() {
    // a variable used in a context matches only a segment identical (bit for bit) to the captured one
    let a = any_seg(); let x = any_seg(); let v = any_seg();
    let w = word1(syll_of(&[x, a], any_stress(), kani::any()));
    let sub = mk_sub(RuleType::Substitution);
    sub.variables.borrow_mut().insert(1, VarKind::Segment(v));
    let tk = Token::new(crate::lexer::TokenKind::Number, "1", 0, 0, 0, 1);
    let mut pos = SegPos::new(0, 1);
    let r = sub.context_match_var(&tk, &None, &w, &mut pos, true, P);
    match r { Ok(m) => { assert!(m == (a == v), "role=variable-matches-only-identical-segment"); if m { assert!(pos == SegPos::new(1, 0), "role=cursor-after-variable-match"); } else { assert!(pos == SegPos::new(0, 1), "role=cursor-after-variable-mismatch"); } }, Err(_) => assert!(false, "role=unexpected-error") }
    // an unbound variable is an error, not a match
    let tk2 = Token::new(crate::lexer::TokenKind::Number, "2", 0, 0, 0, 1);
    let mut pos2 = SegPos::new(0, 1);
    assert!(sub.context_match_var(&tk2, &None, &w, &mut pos2, true, P).is_err(), "role=unbound-variable-is-error");
    kani::cover!(a == v);
    kani::cover!(a != v && a.root == v.root && a.manner == v.manner && a.laryngeal == v.laryngeal);
    std::mem::forget(sub); std::mem::forget(w); std::mem::forget(tk); std::mem::forget(tk2);
}
"""), shared=[G.SUBRULE_SHARED], functions=["SubRule::context_match_var", "SubRule::context_match_ipa", "HashMap<usize,VarKind>::insert/get (real)", "str::parse::<usize>"], symbolic="bundles a, x, v (2^120); stress, tone",
        shape="[x a], variable 1 = v matched at a", unwind=unwind, unwindset=UNWINDSET, stubs=STUBS, cap_s=2400, weight=7))

    # ---------------------------------------------------------------- syllable variables: identical syllable only
    HDRS = "#[kani::proof]\n" + G.STUB_RS + "\n#[kani::unwind(8)]"
    sv_shapes = [(3, 2, False), (2, 2, True), [(2, 3, True), (1, 2, True)][seed % 2]] if tier == "quick" else [(k, m, f) for k in (1, 2, 3) for m in (1, 2, 3) for f in (True, False)]
    for (k, m, fw) in sv_shapes:
        nm = "c07_syllvar_match_context_%d_%d_%s" % (k, m, "fw" if fw else "bw")
        cs = ["c%d" % i for i in range(k)]
        ws = ["w%d" % i for i in range(m)]
        same = ("false" if k != m else " && ".join("%s == %s" % (ws[i], cs[i] if fw else cs[k - 1 - i]) for i in range(k)))
        hs.append(G.H(nm, "syllable-variable-match", "subrule", G.T(HDRS + """
fn @name@() {
    // a syllable variable in a context matches only a syllable identical to the captured one
    // (@dir@ walk: the word handed to the matcher is @wdesc@)
@decl@
    let cst = any_stress(); let ct: u16 = kani::any();
    let wst = any_stress(); let wt: u16 = kani::any();
    let captured = syll_of(&[@cs@], cst, ct);
    let mut w = empty_word();
    w.syllables.push(syll_of(&[any_seg()], any_stress(), kani::any()));
    w.syllables.push(syll_of(&[@ws@], wst, wt));
    let sub = mk_sub(RuleType::Substitution);
    let mut pos = SegPos::new(1, 0);
    let r = sub.context_match_syll_var(&captured, &None, &w, &mut pos, @fw@);
    let same = (@same@) && cst == wst && ct == wt;
    match r { Ok(v) => { assert!(v == same, "role=syllable-variable-matches-only-identical-syllable"); if v { assert!(pos == SegPos::new(2, 0), "role=cursor-after-syllable-variable"); } }, Err(_) => assert!(false, "role=unexpected-error") }
    // not at a syllable start: never a match
    let mut pos2 = SegPos::new(1, @mid@);
    @midcheck@
    kani::cover!(@cov@);
    kani::cover!(!same);
    std::mem::forget(sub); std::mem::forget(w); std::mem::forget(captured);
}
""", name=nm, dir="forward" if fw else "backward", wdesc="the word itself" if fw else "the reversed word, so the stored syllable is compared in reverse",
            decl="\n".join("    let %s = any_seg();" % x for x in cs + ws), cs=", ".join(cs), ws=", ".join(ws), fw="true" if fw else "false", same=same,
            mid=1 if m > 1 else 0, midcheck=('match sub.context_match_syll_var(&captured, &None, &w, &mut pos2, %s) { Ok(v) => assert!(!v, "role=syllable-variable-matches-mid-syllable"), Err(_) => assert!(false, "role=unexpected-error") }' % ("true" if fw else "false")) if m > 1 else "",
            cov="same" if k == m else "true"), shared=[G.SUBRULE_SHARED], functions=["SubRule::context_match_syll_var", "VecDeque<Segment>::eq/clone/reverse", "Word::in_bounds"],
            symbolic="%d + %d bundles, both stresses, both tones" % (k, m), shape="captured syllable of %d, word syllable of %d, %s" % (k, m, "forwards" if fw else "backwards"), unwind=8, stubs=STUBS, weight=3))
    for (k, m) in ([[(2, 2)], [(2, 3)]][seed % 2] if tier == "quick" else [(1, 1), (1, 2), (2, 1), (2, 2), (2, 3), (3, 2), (3, 3)]):
        nm = "c07_syllvar_match_input_%d_%d" % (k, m)
        cs = ["c%d" % i for i in range(k)]
        ws = ["w%d" % i for i in range(m)]
        same = ("false" if k != m else " && ".join("%s == %s" % (ws[i], cs[i]) for i in range(k)))
        hs.append(G.H(nm, "syllable-variable-match", "subrule", G.T(HDRS + """
fn @name@() {
    // a syllable variable repeated in the input matches only an identical syllable
@decl@
    let cst = any_stress(); let ct: u16 = kani::any();
    let wst = any_stress(); let wt: u16 = kani::any();
    let captured = syll_of(&[@cs@], cst, ct);
    let mut w = empty_word();
    w.syllables.push(syll_of(&[@ws@], wst, wt));
    let sub = mk_sub(RuleType::Substitution);
    let mut pos = SegPos::new(0, 0);
    let mut caps: Vec<MatchElement> = Vec::new();
    let mut si = 0usize;
    let r = sub.input_match_syll_var(&mut caps, &mut si, &captured, &None, &w, &mut pos);
    let same = (@same@) && cst == wst && ct == wt;
    match r { Ok(v) => { assert!(v == same, "role=syllable-variable-matches-only-identical-syllable"); assert!(caps.len() == if v { 1 } else { 0 }, "role=capture-recorded"); }, Err(_) => assert!(false, "role=unexpected-error") }
    kani::cover!(@cov@);
    kani::cover!(!same);
    std::mem::forget(sub); std::mem::forget(w); std::mem::forget(captured); std::mem::forget(caps);
}
""", name=nm, decl="\n".join("    let %s = any_seg();" % x for x in cs + ws), cs=", ".join(cs), ws=", ".join(ws), same=same, cov="same" if k == m else "true"),
            shared=[G.SUBRULE_SHARED], functions=["SubRule::input_match_syll_var", "Syllable::eq"], symbolic="%d + %d bundles, both stresses, both tones" % (k, m),
            shape="captured syllable of %d, word syllable of %d (input)" % (k, m), unwind=8, stubs=STUBS, weight=3))

    hs.append(G.H("c07_twin_reach", "vacuity-twin", "subrule", G.T(HDR + """
fn c07_twin_reach() {
    let st = any_stress();
    let sy = syll_of(&[any_seg()], st, 0);
    let sub = mk_sub(RuleType::Substitution);
    let r = sub.match_stress(&[bin(true), None], &sy);
    kani::assume(r.is_ok());
    std::mem::forget(sub); std::mem::forget(sy);
    assert!(false, "role=twin-end-reached");
}
"""), shared=[G.SUBRULE_SHARED], functions=["SubRule::match_stress"], symbolic="-", shape="assert(false) twin", expect="fail", unwind=unwind, stubs=STUBS))

    if tier == "quick":
        drop = "c07_var_capture_input" if seed % 2 == 0 else "c07_var_capture_context"
        hs = [h for h in hs if h["name"] != drop]
    return {
        "harnesses": hs, "cap_s": 900 if tier == "quick" else 2400, "jobs": 8,
        "bounds": ["unwind %d; hashbrown/SipHash loops bounded to 3 through --unwindset (ids read from this build), unwinding assertions on" % unwind,
                   "feature alphas this run: %d shapes; node alphas: %d; suprasegmental alphas: stress x3 + pair, length shapes; segment variables: capture (context, input) and match" % (len(shapes), 3 if tier == "quick" else 8)],
        "outside": ["write-back of variables in substitution/insertion outputs (`X=1 .. > 1 ..`), capture of syllable variables and structures: inside whole-rule application (SubRule::substitution / insert), which does not finish under CBMC",
                    "arbitrary environments around the capturing rule (C03 covers environment selection separately)",
                    "two alphas in one matrix (`[αstress, βsecstress]`): two inserts and two lookups in the real hashbrown map exceed 14 GB under CBMC",
                    "the write-back half of length alphas (`[αlong]` in an output reading α back from the map): > 40 min / 10 GB; the capture half is decided (supra-alpha-capture), the binary write-back is C05"],
        "assumptions": ["std::hash::RandomState::new stubbed with fixed keys", "same_features/ref_feat reference reads in harness/common.rs"],
    }
