"""C04  a feature matrix matches and changes exactly the features it names (kernel level)."""
import random
import gen_harness as G

NODE_OF = [0, 0, 0, 1, 1, 1, 1, 1, 1, 1, 1, 2, 2, 2, 3, 3, 4, 4, 5, 5, 5, 5, 5, 5, 6, 6]  # doc/doc.md feature chart
NODE_NAME = ["root", "manner", "laryngeal", "labial", "coronal", "dorsal", "pharyngeal"]
HDR = "#[kani::proof]\n" + G.STUB_RS + "\n#[kani::unwind(@unwind@)]"
STUBS = ["std::hash::RandomState::new -> fixed keys"]
UNWINDSET = {"pattern": r"hashbrown|core..hash..sip|sip..Hasher|4hash3sip|BuildHasher|hash_one", "bound": 3}


def fname(i):
    return G.FEATS[i].lower()


def c04(tier, seed, dst, facts):
    n = facts["ftype_count"]
    unwind = n + 2
    hs = []
    rnd = random.Random(seed)

    # ---------------------------------------------------------------- (a) one-slot match, leaf; (b) one-slot apply
    # One harness per NODE, one block per feature of that node (each block has its own symbolic bundle and polarity and
    # a concrete slot, R1); the role of every assertion carries the feature name. Merging the 26 + 26 one-slot shapes into
    # 7 + 7 harnesses saves the per-harness code generation and goto-instrument overhead (about 10 s each).
    by_node = {}
    for fi in range(n):
        by_node.setdefault(NODE_OF[fi], []).append(fi)
    chunks = []
    for ni, fl in sorted(by_node.items()):
        if len(fl) > 4:      # two harnesses for the big nodes (manner: 8 features, dorsal: 6): shorter critical path
            half = (len(fl) + 1) // 2
            chunks += [(ni, "_a", fl[:half]), (ni, "_b", fl[half:])]
        else:
            chunks.append((ni, "", fl))
    for ni, sfx, feats in chunks:
        blocks = []
        for fi in feats:
            sub = NODE_OF[fi] >= 3
            blocks.append(G.T("""
    {   // [±@fn@]
        let s = any_seg();
        let b = any_bin();
        let r = sub.match_feat_mod(&Some(ModKind::Binary(b)), @fi@, s);
        let exp = ref_match_feat(&s, @fi@, b == BinMod::Positive);
        match r { Ok(v) => assert!(v == exp, "role=match-one-feature-@fn@"), Err(_) => assert!(false, "role=unexpected-error-@fn@") }
        match sub.match_feat_mod(&None, @fi@, s) { Ok(v) => assert!(v, "role=unnamed-feature-always-matches-@fn@"), Err(_) => assert!(false, "role=unexpected-error-@fn@") }
        kani::cover!(exp && b == BinMod::Positive);
        kani::cover!(exp && b == BinMod::Negative);
        @cover_absent@
    }""", fi=fi, fn=fname(fi), cover_absent='kani::cover!(!exp && ref_feat(&s, %d).is_none() && b == BinMod::Negative);' % fi if sub else ""))
        nm = "c04_match_%s%s" % (NODE_NAME[ni], sfx)
        hs.append(G.H(nm, "match-one-feature", "subrule", G.T(HDR + """
fn @name@() {
    let sub = mk_sub(RuleType::Substitution);
@blocks@
    std::mem::forget(sub);
}
""", name=nm, unwind=unwind, blocks="\n".join(blocks)),
            shared=[G.SUBRULE_SHARED], functions=["SubRule::match_feat_mod", "SubRule::match_seg_kind", "Segment::feat_match", "FType::to_node_mask"],
            symbolic="per feature: all bundles (2^24 x (None + 2^16 places)), polarity", shape="[±F] for F in {%s}" % ", ".join(fname(f) for f in feats), unwind=unwind, stubs=STUBS, weight=len(feats)))
        blocks = []
        for fi in feats:
            sub = NODE_OF[fi] >= 3
            blocks.append(G.T("""
    {   // [±@fn@] as output
        let s = any_seg();
        let b = any_bin();
        let pos = b == BinMod::Positive;
        let mut m = mods_new();
        m.feats[@fi@] = Some(ModKind::Binary(b));
        let mut t = s;
        let r = t.apply_seg_mods(&alphas, m.nodes, m.feats, P, false);
        assert!(r.is_ok(), "role=unexpected-error-@fn@");
        let e = ref_apply_feat(&s, @fi@, pos);
        assert!(same_features(&t, &e), "role=apply-one-feature-@fn@");
        if inv(&s) { assert!(t == e, "role=apply-one-feature-bits-@fn@"); }
        // the named feature now has the named value, unless it was a negative feature of an absent sub-node
        if pos || ref_feat(&s, @fi@).is_some() { assert!(ref_match_feat(&t, @fi@, pos), "role=named-feature-has-named-value-@fn@"); }
        else { assert!(t == s, "role=negative-on-absent-subnode-does-nothing-@fn@"); }
        kani::cover!(pos && t != s);
        kani::cover!(!pos && t != s);
        @cover_absent@
    }""", fi=fi, fn=fname(fi), cover_absent=('kani::cover!(pos && ref_feat(&s, %d).is_none());\n        kani::cover!(!pos && ref_feat(&s, %d).is_none());' % (fi, fi)) if sub else ""))
        nm = "c04_apply_%s%s" % (NODE_NAME[ni], sfx)
        hs.append(G.H(nm, "apply-one-feature", "subrule", G.T(HDR + """
fn @name@() {
    let alphas: RefCell<HashMap<char, Alpha>> = RefCell::new(HashMap::new());
@blocks@
    std::mem::forget(alphas);
}
""", name=nm, unwind=unwind, blocks="\n".join(blocks)),
            functions=["Segment::apply_seg_mods", "Segment::set_feat", "Segment::set_node", "Place::set_*", "FType::to_node_mask"],
            symbolic="per feature: all bundles, polarity", shape="[±F] as output for F in {%s}" % ", ".join(fname(f) for f in feats), unwind=unwind, stubs=STUBS, weight=len(feats)))

    # ---------------------------------------------------------------- (c) nodes
    for ni, nd in enumerate(G.NODES):
        if ni >= 3:
            hs.append(G.H("c04_match_node_%s" % nd.lower(), "match-node", "subrule", G.T(HDR + """
fn @name@() {
    let s = @anyseg@;
    let b = any_bin();
    let sub = mk_sub(RuleType::Substitution);
    let r = sub.match_node_mod(&Some(ModKind::Binary(b)), @ni@, s, P);
    let exp = ref_node_present(&s, @ni@) == (b == BinMod::Positive);
    match r { Ok(v) => assert!(v == exp, "role=match-node"), Err(_) => assert!(false, "role=unexpected-error") }
    kani::cover!(exp && b == BinMod::Positive);
    kani::cover!(exp && b == BinMod::Negative);
    std::mem::forget(sub);
}
""", name="c04_match_node_%s" % nd.lower(), ni=ni, unwind=unwind, anyseg="any_inv_seg()" if ni == 3 else "any_seg()"),
                shared=[G.SUBRULE_SHARED], functions=["SubRule::match_node_mod", "SubRule::match_node"], symbolic="all bundles" + (" satisfying the C08 invariant (for an ill-formed place 'has a place node' is undefined)" if ni == 3 else "") + ", polarity", shape="[±%s]" % nd.lower(), unwind=unwind, stubs=STUBS))
        hs.append(G.H("c04_apply_node_%s" % nd.lower(), "apply-node", "subrule", G.T(HDR + """
fn @name@() {
    let s = any_seg();
    let b = any_bin();
    let pos = b == BinMod::Positive;
    let alphas: RefCell<HashMap<char, Alpha>> = RefCell::new(HashMap::new());
    let mut m = mods_new();
    m.nodes[@ni@] = Some(ModKind::Binary(b));
    let mut t = s;
    let r = t.apply_seg_mods(&alphas, m.nodes, m.feats, P, false);
    @body@
    std::mem::forget(alphas);
}
""", name="c04_apply_node_%s" % nd.lower(), ni=ni, unwind=unwind, body=(
            # root/manner/laryngeal cannot be removed or created; +place cannot be set
            'assert!(r.is_err(), "role=node-cannot-be-set");' if ni < 3 else
            ('if pos { assert!(r.is_err(), "role=place-cannot-be-positive"); } else { assert!(r.is_ok(), "role=unexpected-error"); let e = ref_apply_node(&s, 3, false); assert!(t == e, "role=minus-place-removes-place"); assert!(raw(&t.place).is_none() && t.root == s.root && t.manner == s.manner && t.laryngeal == s.laryngeal, "role=minus-place-frame"); }\n    kani::cover!(!pos && raw(&s.place).is_some());' if ni == 3 else
             'assert!(r.is_ok(), "role=unexpected-error");\n    let e = ref_apply_node(&s, @ni@, pos);\n    assert!(same_features(&t, &e), "role=apply-node");\n    if inv(&s) { assert!(t == e, "role=apply-node-bits"); }\n    assert!(ref_node_present(&t, @ni@) == pos, "role=node-presence-after-apply");\n    kani::cover!(pos && !ref_node_present(&s, @ni@));\n    kani::cover!(!pos && ref_node_present(&s, @ni@) && raw(&t.place).is_none());\n    kani::cover!(pos && ref_node_present(&s, @ni@));'.replace("@ni@", str(ni))))),
            functions=["Segment::apply_seg_mods", "Segment::set_node", "Place::set_*"], symbolic="all bundles, polarity", shape="[±%s] as output" % nd.lower(), unwind=unwind, stubs=STUBS, jobs=8))

    # ---------------------------------------------------------------- (d) two slots in one matrix
    same_node_pairs = [(f, g) for f in range(n) for g in range(f + 1, n) if NODE_OF[f] == NODE_OF[g]]
    sub_pairs = [(f, g) for (f, g) in same_node_pairs if NODE_OF[f] >= 3]       # 1 + 1 + 15 + 1 = 18
    cross = [(14, 16), (15, 18), (17, 24), (2, 15), (11, 19), (6, 25)]
    if tier == "quick":
        pairs = [sub_pairs[:2][seed % 2]] + rnd.sample(sub_pairs[2:-1], 1) + [cross[seed % len(cross)]]
    else:
        pairs = same_node_pairs + cross
    for (f, g) in pairs:
        nm = "c04_apply2_%02d_%02d" % (f, g)
        hs.append(G.H(nm, "apply-two-features", "subrule", G.T(HDR + """
fn @name@() {
    // [xF, yG] in one output matrix: order-independent oracle
    let s = any_seg();
    let bf = any_bin(); let bg = any_bin();
    let alphas: RefCell<HashMap<char, Alpha>> = RefCell::new(HashMap::new());
    let mut m = mods_new();
    m.feats[@f@] = Some(ModKind::Binary(bf));
    m.feats[@g@] = Some(ModKind::Binary(bg));
    let mut t = s;
    let r = t.apply_seg_mods(&alphas, m.nodes, m.feats, P, false);
    assert!(r.is_ok(), "role=unexpected-error");
    let named = [(@f@usize, bf == BinMod::Positive), (@g@usize, bg == BinMod::Positive)];
    let e = ref_apply_set(&s, &named);
    assert!(same_features(&t, &e), "role=apply-two-features");
    if inv(&s) { assert!(t == e, "role=apply-two-features-bits"); }
    @cov_f@
    @cov_g@
    kani::cover!(bf == BinMod::Negative && bg == BinMod::Negative && t != s);
    std::mem::forget(alphas);
}
""", name=nm, f=f, g=g, unwind=unwind,
            cov_f=("kani::cover!(bf == BinMod::Negative && bg == BinMod::Positive && ref_feat(&s, %d).is_none());" % f) if NODE_OF[f] >= 3 else "kani::cover!(bf == BinMod::Negative && bg == BinMod::Positive && t != s);",
            cov_g=("kani::cover!(bf == BinMod::Positive && bg == BinMod::Negative && ref_feat(&s, %d).is_none());" % g) if NODE_OF[g] >= 3 else "kani::cover!(bf == BinMod::Positive && bg == BinMod::Negative && t != s);"),
            functions=["Segment::apply_seg_mods", "Segment::set_feat", "Place::set_*"], symbolic="all bundles, both polarities",
            shape="[±%s, ±%s] as output" % (fname(f), fname(g)), unwind=unwind, stubs=STUBS, jobs=8))

    # three slots in one matrix (two of one sub-node + one of another node): the order-independent oracle again
    triples = [(18, 20, 15), (14, 15, 16), (24, 25, 19), (19, 21, 24)] if tier == "thorough" else [[(18, 20, 15), (14, 15, 16)][seed % 2]]
    for (f, g, k) in triples:
        nm = "c04_apply3_%02d_%02d_%02d" % (f, g, k)
        hs.append(G.H(nm, "apply-three-features", "subrule", G.T(HDR + """
fn @name@() {
    let s = any_seg();
    let bf = any_bin(); let bg = any_bin(); let bk = any_bin();
    let alphas: RefCell<HashMap<char, Alpha>> = RefCell::new(HashMap::new());
    let mut m = mods_new();
    m.feats[@f@] = Some(ModKind::Binary(bf));
    m.feats[@g@] = Some(ModKind::Binary(bg));
    m.feats[@k@] = Some(ModKind::Binary(bk));
    let mut t = s;
    let r = t.apply_seg_mods(&alphas, m.nodes, m.feats, P, false);
    assert!(r.is_ok(), "role=unexpected-error");
    let named = [(@f@usize, bf == BinMod::Positive), (@g@usize, bg == BinMod::Positive), (@k@usize, bk == BinMod::Positive)];
    let e = ref_apply_set(&s, &named);
    assert!(same_features(&t, &e), "role=apply-three-features");
    if inv(&s) { assert!(t == e, "role=apply-three-features-bits"); }
    kani::cover!(bf == BinMod::Negative && bg == BinMod::Positive && ref_feat(&s, @f@).is_none());
    kani::cover!(bk == BinMod::Positive && ref_feat(&s, @k@).is_none());
    std::mem::forget(alphas);
}
""", name=nm, f=f, g=g, k=k, unwind=unwind), functions=["Segment::apply_seg_mods", "Segment::set_feat", "Place::set_*"], symbolic="all bundles, three polarities",
            shape="[±%s, ±%s, ±%s] as output" % (fname(f), fname(g), fname(k)), unwind=unwind, stubs=STUBS))

    # two-slot *match* through the real SubRule::match_modifiers on a directly built one-segment word
    mm_pairs = [[(15, 14), (19, 20)][seed % 2]] if tier == "quick" else [(15, 14), (19, 20), (16, 17), (24, 25), (0, 11), (6, 15), (18, 23)]
    for (f, g) in mm_pairs:
        nm = "c04_matchmods_%02d_%02d" % (f, g)
        hs.append(G.H(nm, "match-modifiers-word", "subrule", G.T(HDR + """
fn @name@() {
    let s = any_seg();
    let bf = any_bin(); let bg = any_bin();
    let sub = mk_sub(RuleType::Substitution);
    let w = word1(syll_of(&[s], any_stress(), kani::any()));
    let mut m = mods_new();
    m.feats[@f@] = Some(ModKind::Binary(bf));
    m.feats[@g@] = Some(ModKind::Binary(bg));
    let r = sub.match_modifiers(&m, &w, &SegPos::new(0, 0), P);
    let named = [(@f@usize, bf == BinMod::Positive), (@g@usize, bg == BinMod::Positive)];
    let exp = ref_match_set(&s, &named);
    match r { Ok(v) => assert!(v == exp, "role=match-two-features"), Err(_) => assert!(false, "role=unexpected-error") }
    kani::cover!(exp);
    kani::cover!(!exp && ref_match_feat(&s, @f@, bf == BinMod::Positive));
    std::mem::forget(sub); std::mem::forget(w);
}
""", name=nm, f=f, g=g, unwind=unwind), shared=[G.SUBRULE_SHARED],
            functions=["SubRule::match_modifiers", "SubRule::match_feat_mod", "SubRule::match_node_mod", "SubRule::match_supr_mod_seg", "SubRule::match_stress", "SubRule::match_seg_length", "Word::get_seg_at", "Word::seg_length_at"],
            symbolic="all bundles, polarities, stress, tone", shape="[±%s, ±%s] on a 1-segment word" % (fname(f), fname(g)), unwind=unwind, stubs=STUBS, cap_s=1500, jobs=6))

    # ---------------------------------------------------------------- long segment: every copy is changed
    for fi in ([[15, 11, 19, 24][seed % 4]] if tier == "quick" else [15, 11, 2, 19, 24, 6]):
        nm = "c04_long_apply_%02d" % fi
        hs.append(G.H(nm, "apply-long-segment", "subrule", G.T(HDR + """
fn @name@() {
    let a = any_seg(); let x = any_seg(); let y = any_seg();
    kani::assume(a != x && a != y);
    let b = any_bin();
    let mut sy = syll_of(&[x, a, a, y], any_stress(), kani::any());
    let alphas: RefCell<HashMap<char, Alpha>> = RefCell::new(HashMap::new());
    let mut m = mods_new();
    m.feats[@fi@] = Some(ModKind::Binary(b));
    let r = sy.apply_seg_mods(&alphas, &m, 1, P);
    let e = ref_apply_feat(&a, @fi@, b == BinMod::Positive);
    match r { Ok(lc) => assert!(lc == 0, "role=length-change-zero"), Err(_) => assert!(false, "role=unexpected-error") }
    assert!(sy.segments.len() == 4, "role=segment-count");
    assert!(same_features(&sy.segments[1], &e) && same_features(&sy.segments[2], &e), "role=all-copies-of-a-long-segment-changed");
    assert!(sy.segments[0] == x && sy.segments[3] == y, "role=neighbours-unchanged");
    kani::cover!(sy.segments[1] != a);
    std::mem::forget(alphas); std::mem::forget(sy);
}
""", name=nm, fi=fi, unwind=unwind), functions=["Syllable::apply_seg_mods", "Syllable::get_seg_length_at", "Syllable::apply_supras", "Segment::apply_seg_mods"],
            symbolic="3 bundles (long segment a, neighbours x, y != a), polarity, stress, tone", shape="syllable [x a a y], [±%s] at the long segment" % fname(fi), unwind=unwind, stubs=STUBS, cap_s=1500, jobs=6))

    # ---------------------------------------------------------------- a feature and a length modifier in ONE output matrix
    # `[+long, ±F]` on a short segment / `[-long, ±F]` on a long one: every copy of the resulting run carries the new value,
    # no neighbour is touched (Syllable::apply_seg_mods orders the feature loop and apply_supras by hand)
    fl_shapes = [(15, True), (11, False)] if tier == "quick" else [(15, True), (11, False), (20, True), (6, False), (24, True), (2, False)]
    for (fi, grow) in fl_shapes:
        nm = "c04_feat_and_length_%02d_%s" % (fi, "lengthen" if grow else "shorten")
        segs = "x, a, y" if grow else "x, a, a, y"
        hs.append(G.H(nm, "apply-feature-and-length", "subrule", G.T(HDR + """
fn @name@() {
    let a = any_seg(); let x = any_seg(); let y = any_seg();
    kani::assume(a != x && a != y);
    let b = any_bin();
    let e = ref_apply_feat(&a, @fi@, b == BinMod::Positive);
    kani::assume(!same_features(&e, &x) && !same_features(&e, &y));      // the changed segment must not merge with a neighbour into a longer run
    let st = any_stress(); let tone: u16 = kani::any();
    let mut sy = syll_of(&[@segs@], st, tone);
    let alphas: RefCell<HashMap<char, Alpha>> = RefCell::new(HashMap::new());
    let mut m = mods_new();
    m.feats[@fi@] = Some(ModKind::Binary(b));
    m.suprs.length = [@lmod@, None];
    let r = sy.apply_seg_mods(&alphas, &m, 1, P);
    match r { Ok(lc) => assert!(lc == @lc@, "role=length-change-reported"), Err(_) => assert!(false, "role=unexpected-error") }
    assert!(sy.segments.len() == @n@, "role=segment-count");
    assert!(sy.segments[0] == x && sy.segments[@last@] == y, "role=neighbours-unchanged");
    assert!(@copies@, "role=every-copy-carries-the-named-feature");
    assert!(sy.stress == st && sy.tone == tone, "role=stress-and-tone-unchanged");
    kani::cover!(sy.segments[1] != a);
    std::mem::forget(alphas); std::mem::forget(sy);
}
""", name=nm, fi=fi, segs=segs, lmod="bin(true)" if grow else "bin(false)", lc=1 if grow else -1, n=4 if grow else 3, last=3 if grow else 2,
            copies="same_features(&sy.segments[1], &e) && same_features(&sy.segments[2], &e)" if grow else "same_features(&sy.segments[1], &e)", unwind=unwind),
            functions=["Syllable::apply_seg_mods", "Syllable::apply_supras", "Syllable::get_seg_length_at", "Segment::apply_seg_mods"],
            symbolic="3 bundles (a != neighbours before and after the change), polarity, stress, tone", shape="[%s], [%s, ±%s] at a" % (segs, "+long" if grow else "-long", fname(fi)), unwind=unwind, stubs=STUBS, cap_s=1500, weight=3))

    # ---------------------------------------------------------------- (e) alphas: capture by the matcher, use by the applier
    per_node = [2, 6, 11, 15, 16, 20, 24]           # one feature per node
    if tier == "quick":
        # three of the capture/use polarity classes per run, features rotating with VERIF_SEED (thorough runs them all)
        rot = [15, 20, 11, 24, 16, 6, 2]
        f0, f1, f2 = rot[seed % 7], rot[(seed + 2) % 7], rot[(seed + 4) % 7]
        alpha_shapes = [(f0, f0, False, True), [(f1, f1, True, False), (f2, rot[(seed + 1) % 7], False, False)][seed % 2]]
    else:
        alpha_shapes = [(f, f, ic, iu) for f in range(n) for (ic, iu) in [(False, False), (False, True)]]
        alpha_shapes += [(f, f, True, False) for f in per_node]
        alpha_shapes += [(f, per_node[(i + 1) % len(per_node)], False, False) for i, f in enumerate(per_node)]
    for (f, g, ic, iu) in alpha_shapes:
        nm = "c04_alpha_%02d%s_to_%02d%s" % (f, "i" if ic else "", g, "i" if iu else "")
        hs.append(G.H(nm, "alpha-capture-apply", "subrule", G.T(HDR + """
fn @name@() {
    // `[@capk@F]` bound while matching the donor d, then `[@usek@G]` applied to the target t (real HashMap in between)
    let d = any_seg(); let t0 = any_seg();
    let sub = mk_sub(RuleType::Substitution);
    let (nd, mask) = FType::from_usize(@f@).to_node_mask();
    let cap = ModKind::Alpha(AlphaMod::@capctor@('α'));
    let r = sub.match_seg_kind(&cap, d, nd, mask);
    let dv = ref_feat(&d, @f@);
    let mut m = mods_new();
    m.feats[@g@] = Some(ModKind::Alpha(AlphaMod::@usector@('α')));
    let mut t = t0;
    let r2 = t.apply_seg_mods(&sub.alphas, m.nodes, m.feats, P, false);
    match (r, dv) {
        (Ok(true), Some(v)) => {
            // α = value read (or its inverse when bound through -α); -α in the output inverts again
            let alpha = if @ic@ { !v } else { v };
            let val = if @iu@ { !alpha } else { alpha };
            assert!(r2.is_ok(), "role=unexpected-error");
            let e = ref_apply_feat(&t0, @g@, val);
            assert!(same_features(&t, &e), "role=alpha-carries-captured-value");
            if inv(&t0) { assert!(t == e, "role=alpha-carries-captured-value-bits"); }
        }
        (Ok(false), None) => {
            // feature of an absent sub-node: matches neither + nor -, nothing is bound
            assert!(r2.is_err(), "role=nothing-bound-on-absent-subnode");
            assert!(t == t0, "role=target-untouched-when-unbound");
        }
        _ => assert!(false, "role=capture-outcome"),
    }
    kani::cover!(dv == Some(true) && t != t0);
    kani::cover!(dv == Some(false) && t != t0);
    @cover_absent@
    std::mem::forget(sub);
}
""", name=nm, f=f, g=g, unwind=unwind, ic=str(ic).lower(), iu=str(iu).lower(), capctor="InvAlpha" if ic else "Alpha", usector="InvAlpha" if iu else "Alpha",
            capk="-α" if ic else "α", usek="-α" if iu else "α", cover_absent="kani::cover!(dv.is_none());" if NODE_OF[f] >= 3 else ""),
            shared=[G.SUBRULE_SHARED], functions=["SubRule::match_seg_kind", "Segment::apply_seg_mods", "Alpha::as_binary", "HashMap::insert/get (real hashbrown + SipHash)"],
            symbolic="donor bundle x target bundle (2^80)", shape="[%s%s] captured, [%s%s] applied" % ("-α" if ic else "α", fname(f), "-α" if iu else "α", fname(g)), unwind=unwind,
            unwindset=UNWINDSET, stubs=STUBS, cap_s=2400, weight=5))

    # node alphas
    node_shapes = [3] if tier == "quick" else [0, 1, 2, 3, 4, 5, 6, 7]      # the whole-place alpha always; one sub-node rotating
    for ni in node_shapes:
        nd = G.NODES[ni]
        nm = "c04_alpha_node_%s" % nd.lower()
        if ni == 3:
            expect = """
            assert!(r2.is_ok(), "role=unexpected-error");
            assert!(ref_sub(raw(&t.place), 0) == ref_sub(raw(&d.place), 0) && ref_sub(raw(&t.place), 1) == ref_sub(raw(&d.place), 1) && ref_sub(raw(&t.place), 2) == ref_sub(raw(&d.place), 2) && ref_sub(raw(&t.place), 3) == ref_sub(raw(&d.place), 3), "role=alpha-place-carries-all-subnodes");
            assert!(t.root == t0.root && t.manner == t0.manner && t.laryngeal == t0.laryngeal, "role=alpha-place-frame");
            // a well-formed donor's place is carried bit for bit: in particular "no place" stays `None`, never an empty `Some(0)`
            if inv(&d) { assert!(t.place == d.place, "role=alpha-place-carries-place-bits"); }
            kani::cover!(inv(&d) && raw(&d.place).is_none() && raw(&t0.place).is_some());"""
        elif ni < 3:
            fld = ["root", "manner", "laryngeal"][ni]
            expect = """
            assert!(r2.is_ok(), "role=unexpected-error");
            assert!(t.%s == d.%s, "role=alpha-node-carries-value");
            let mut e = t0; e.%s = d.%s; assert!(t == e, "role=alpha-node-frame");""" % (fld, fld, fld, fld)
        else:
            expect = """
            assert!(r2.is_ok(), "role=unexpected-error");
            assert!(ref_sub(raw(&t.place), %d) == ref_sub(raw(&d.place), %d), "role=alpha-node-carries-value");
            let e = Segment { root: t0.root, manner: t0.manner, laryngeal: t0.laryngeal, place: ref_with_sub(raw(&t0.place), %d, ref_sub(raw(&d.place), %d)) };
            assert!(same_features(&t, &e), "role=alpha-node-frame");""" % (ni - 4, ni - 4, ni - 4, ni - 4)
        hs.append(G.H(nm, "alpha-node-capture-apply", "subrule", G.T(HDR + """
fn @name@() {
    // `[α@ND@]` bound by the matcher on donor d, applied by the real applier to target t
    let d = any_seg(); let t0 = any_seg();
    let sub = mk_sub(RuleType::Substitution);
    let kind = ModKind::Alpha(AlphaMod::Alpha('α'));
    let r = sub.match_node(d, NodeKind::@nd@, &kind, P);
    match r { Ok(v) => assert!(v, "role=first-use-of-node-alpha-matches"), Err(_) => assert!(false, "role=unexpected-error") }
    let mut m = mods_new();
    m.nodes[@ni@] = Some(kind);
    let mut t = t0;
    let r2 = t.apply_seg_mods(&sub.alphas, m.nodes, m.feats, P, false);
    {@expect@
    }
    kani::cover!(t != t0);
    std::mem::forget(sub);
}
""", name=nm, nd=nd, ND=nd.upper(), ni=ni, unwind=unwind, expect=expect), shared=[G.SUBRULE_SHARED],
            functions=["SubRule::match_node", "Segment::apply_seg_mods", "Segment::node_match", "Alpha::as_node/as_place", "HashMap::insert/get (real)"],
            symbolic="donor bundle x target bundle", shape="[α%s] captured and applied" % nd.upper(), unwind=unwind, unwindset=UNWINDSET, stubs=STUBS, cap_s=2400, weight=5))

    # vacuity twin
    hs.append(G.H("c04_twin_reach", "vacuity-twin", "subrule", G.T(HDR + """
fn c04_twin_reach() {
    let s = any_seg();
    let alphas: RefCell<HashMap<char, Alpha>> = RefCell::new(HashMap::new());
    let mut m = mods_new();
    m.feats[15] = Some(ModKind::Binary(any_bin()));
    let mut t = s;
    let r = t.apply_seg_mods(&alphas, m.nodes, m.feats, P, false);
    kani::assume(r.is_ok());
    std::mem::forget(alphas);
    assert!(false, "role=twin-end-reached");
}
""", unwind=unwind), functions=["Segment::apply_seg_mods"], symbolic="as apply-one-feature", shape="assert(false) twin", expect="fail", unwind=unwind, stubs=STUBS))

    return {
        "harnesses": hs, "cap_s": 1200, "jobs": 10,
        "bounds": ["unwind %d = FType::count()+2 read from src/lexer.rs (loops over the 26 feature and 8 node slots); Kani's unwinding assertions are on" % unwind,
                   "alpha shapes: hashbrown/SipHash loops bounded to 3 via --unwindset, loop ids read from `cbmc --show-loops` on this build's goto binary; unwinding assertions on",
                   "matrices with one slot (all 26 features, 8 nodes) and two slots (%d pairs this run); three-slot matrices: %d this run; four and more are not enumerated" % (len(pairs), len(triples)),
                   "alpha shapes this run: %d feature shapes, %d node shapes" % (len(alpha_shapes), len(node_shapes))],
        "outside": ["the rule-level wrappers ([] > [±F] through lexer, parser, SubRule::apply scan loop and renderer): whole-rule application does not finish under CBMC",
                    "the input *set* 'base + one diacritic' as such: the kernels are decided for every one of the 2^40 bundles, which includes them",
                    "matrices naming four or more features (slots are handled by independent loop iterations; argued from the code; one- to three-slot matrices are decided)",
                    "a later *match* against an already bound alpha (`[αF]` in a context after the input bound it): every harness that calls match_seg_kind/match_node twice keeps a second HashMap::insert (with resize/rehash) alive and exhausted 46 GB under CBMC; the later *use in an output* is decided (alpha-capture-apply)"],
        "assumptions": ["std::hash::RandomState::new stubbed with fixed keys (keys only choose hash buckets)", "reference models ref_match_feat/ref_apply_feat/ref_apply_set/ref_apply_node in harness/common.rs, written from the property statement and the feature chart of doc/doc.md",
                        "for [±place] matching the bundle satisfies the C08 invariant"],
    }
