"""Harness generator: emits, for one property and tier, the Kani proof harnesses (Rust source, one
concrete *shape* each, universally quantified over their symbolic *values*) that `check` mounts
into a scratch copy of /repo's working tree. Everything that depends on the repository (feature
count, diacritic table, cardinals, group table in the manual) is read from the *copied tree*
at generation time, never from a constant in /verif."""
import json, os, random, re

HOSTS = {
    "lib":         {"file": "lib.rs",          "modpath": "verif_kani",                "prelude": "#![allow(unused_imports, dead_code, unused_variables, unused_mut)]\nuse super::*;\nuse crate::verif_common::*;\nuse crate::seg::NodeKind;\nuse crate::lexer::FType;\n"},
    "seg":         {"file": "seg.rs",          "modpath": "seg::verif_kani",           "prelude": "#![allow(unused_imports, dead_code, unused_variables, unused_mut)]\nuse super::*;\nuse crate::verif_common::*;\n"},
    "syll":        {"file": "syll.rs",         "modpath": "syll::verif_kani",          "prelude": "#![allow(unused_imports, dead_code, unused_variables, unused_mut)]\nuse super::*;\nuse crate::verif_common::*;\nuse crate::parser::{ModKind, BinMod, AlphaMod};\nuse crate::seg::NodeKind;\nuse crate::lexer::FType;\n"},
    "subrule":     {"file": "subrule.rs",      "modpath": "subrule::verif_kani",       "prelude": "#![allow(unused_imports, dead_code, unused_variables, unused_mut)]\nuse super::*;\nuse crate::verif_common::*;\nuse crate::place::Place;\nuse crate::parser::Env;\n"},
    "parser":      {"file": "parser.rs",       "modpath": "parser::verif_kani",        "prelude": "#![allow(unused_imports, dead_code, unused_variables, unused_mut)]\nuse super::*;\nuse crate::verif_common::*;\nuse crate::seg::NodeKind;\n"},
    "aliasparser": {"file": "alias/parser.rs", "modpath": "alias::parser::verif_kani", "prelude": "#![allow(unused_imports, dead_code, unused_variables, unused_mut)]\nuse super::*;\nuse crate::verif_common::*;\nuse crate::seg::NodeKind;\nuse crate::lexer::FType;\nuse crate::parser::{ModKind, BinMod, SupraSegs};\nuse crate::alias::{AliasKind, AliasPosition, AliasToken, AliasTokenKind};\n"},
    "word":        {"file": "word.rs",         "modpath": "word::verif_kani",          "prelude": "#![allow(unused_imports, dead_code, unused_variables, unused_mut)]\nuse super::*;\nuse crate::verif_common::*;\n"},
}

STUB_RS = "#[kani::stub(std::hash::RandomState::new, crate::verif_common::stub_rs)]"

FEATS = ["Consonantal", "Sonorant", "Syllabic", "Continuant", "Approximant", "Lateral", "Nasal", "DelayedRelease", "Strident", "Rhotic", "Click",
         "Voice", "SpreadGlottis", "ConstrGlottis", "Labiodental", "Round", "Anterior", "Distributed", "Front", "Back", "High", "Low", "Tense", "Reduced",
         "AdvancedTongueRoot", "RetractedTongueRoot"]
NODES = ["Root", "Manner", "Laryngeal", "Place", "Labial", "Coronal", "Dorsal", "Pharyngeal"]


def read(dst, rel):
    with open(os.path.join(dst, rel), encoding="utf-8") as f:
        return f.read()


def repo_facts(dst):
    """constants the harnesses depend on, read from the copied tree"""
    lex = read(dst, "src/lexer.rs")
    m = re.search(r"impl FType \{\s*pub\(crate\) const fn count\(\) -> usize \{ (\d+) \}", lex)
    n = re.search(r"impl NodeType \{\s*pub\(crate\) const fn count\(\) -> usize \{ (\d+) \}", lex)
    enum = re.search(r"pub\(crate\) enum FType \{(.*?)\n\}", lex, re.S).group(1)
    enum = re.sub(r"/\*.*?\*/|//[^\n]*", "", enum)
    feats = [x.strip() for x in enum.replace("\n", " ").split(",") if x.strip()]
    return {"ftype_count": int(m.group(1)) if m else None, "nodetype_count": int(n.group(1)) if n else None, "ftype_variants": feats}


def H(name, family, host, code, **kw):
    d = {"name": name, "family": family, "host": host, "code": code}
    d.update(kw)
    return d


def T(code, **kw):
    """tiny template: @name@ placeholders (keeps Rust braces readable)"""
    def sub(m):
        k = m.group(1)
        if k not in kw:
            raise KeyError("template placeholder @%s@ not bound" % k)
        return str(kw[k])
    return re.sub(r"@([a-zA-Z_][a-zA-Z0-9_]*)@", sub, code)


SUBRULE_SHARED = """
fn mk_sub(rt: RuleType) -> SubRule {
    SubRule { input: Vec::new(), output: Vec::new(), context: None, except: None, rule_type: rt, variables: RefCell::new(HashMap::new()), alphas: RefCell::new(HashMap::new()) }
}
fn word1(sy: Syllable) -> Word { let mut w = empty_word(); w.syllables.push(sy); w }
"""


# =================================================================================================
# C18  public accessors obey get/set laws
# =================================================================================================

SUBS = [("labial", "Labial", 0, 3), ("coronal", "Coronal", 1, 3), ("dorsal", "Dorsal", 2, 63), ("pharyngeal", "Pharyngeal", 3, 3)]


def c18(tier, seed, dst, facts):
    hs = []
    fns_place = ["Place::is_some", "Place::is_none", "Place::{labial,coronal,dorsal,pharyngeal}_is_{some,none}", "Place::get_{labial,coronal,dorsal,pharyngeal}"]
    hs.append(H("c18_place_getters_ref", "place-getters", "lib", """
#[kani::proof]
fn c18_place_getters_ref() {
    // all 2^16 + 1 place values: every getter agrees with the documented bit layout
    let p = any_place();
    let r = raw(&p);
    assert!(p.get_labial() == ref_sub(r, 0), "role=get-labial");
    assert!(p.get_coronal() == ref_sub(r, 1), "role=get-coronal");
    assert!(p.get_dorsal() == ref_sub(r, 2), "role=get-dorsal");
    assert!(p.get_pharyngeal() == ref_sub(r, 3), "role=get-pharyngeal");
    assert!(p.labial_is_some() == ref_sub(r, 0).is_some() && p.labial_is_none() == ref_sub(r, 0).is_none(), "role=labial-presence");
    assert!(p.coronal_is_some() == ref_sub(r, 1).is_some() && p.coronal_is_none() == ref_sub(r, 1).is_none(), "role=coronal-presence");
    assert!(p.dorsal_is_some() == ref_sub(r, 2).is_some() && p.dorsal_is_none() == ref_sub(r, 2).is_none(), "role=dorsal-presence");
    assert!(p.pharyngeal_is_some() == ref_sub(r, 3).is_some() && p.pharyngeal_is_none() == ref_sub(r, 3).is_none(), "role=pharyngeal-presence");
    assert!(p.is_some() == r.is_some() && p.is_none() == r.is_none(), "role=place-presence");
    kani::cover!(p.get_dorsal() == Some(63));
    kani::cover!(p.is_some() && p.get_labial().is_none() && p.get_pharyngeal() == Some(1));
    kani::cover!(p.is_none());
}
""", functions=fns_place, symbolic="place in {None} + all 2^16 Some values", shape="all getters", unwind=None))

    for (lo, Up, idx, mx) in SUBS:
        others = [s for s in SUBS if s[2] != idx]
        frame = "\n".join('    assert!(p.get_%s() == before.get_%s(), "role=frame-%s");' % (o[0], o[0], o[0]) for o in others)
        hs.append(H("c18_place_set_%s" % lo, "place-setters", "lib", f"""
#[kani::proof]
fn c18_place_set_{lo}() {{
    // all places x (None | all in-range payloads): get-after-set, frame, removal, no residual bits
    let mut p = any_place();
    let before = p;
    let v: Option<u8> = if kani::any() {{ let x: u8 = kani::any(); kani::assume(x <= {mx}); Some(x) }} else {{ None }};
    p.set_{lo}(v);
    assert!(p.get_{lo}() == v, "role=get-after-set");
{frame}
    // raw level: only the {lo} presence bit and payload field may differ, unless the place collapsed to None
    let keep: u16 = !(SUB_PRESENCE[{idx}] | (SUB_WIDTH_MASK[{idx}] << SUB_SHIFT[{idx}]));
    if let (Some(a), Some(b)) = (raw(&before), raw(&p)) {{
        assert!(a & keep == b & keep, "role=frame-raw-bits");
    }}
    if v.is_none() {{
        // an absent sub-node reads back as absent with no residual feature bits
        assert!(ref_payload_field(raw(&p), {idx}) == 0, "role=residual-payload-bits");
        // removing the last place sub-node makes the place absent
        if ref_presence(raw(&before)) & !SUB_PRESENCE[{idx}] == 0 {{
            assert!(p.is_none(), "role=remove-last-subnode");
        }}
    }}
    assert!(raw(&p) != Some(0), "role=empty-place-is-none");
    assert!(raw(&p) == raw(&ref_with_sub(raw(&before), {idx}, v)), "role=agrees-with-reference-setter");
    kani::cover!(v.is_none() && before.is_some() && p.is_none());
    kani::cover!(v.is_none() && before.get_{lo}().is_some() && p.is_some());
    kani::cover!(v == Some({mx}) && before.is_none());
    kani::cover!(v == Some(1) && before.get_{lo}() == Some({mx}));
}}
""", functions=["Place::set_%s" % lo, "Place::get_*"], symbolic="place in {None} + all 2^16; value in {None} + 0..=%d" % mx, shape="sub-node " + lo, release_replay=True))

    seg_nodes = [("Root", 255), ("Manner", 255), ("Laryngeal", 255), ("Labial", 3), ("Coronal", 3), ("Dorsal", 63), ("Pharyngeal", 3)]
    for (nd, mx) in seg_nodes:
        byte = nd in ("Root", "Manner", "Laryngeal")
        anyv = ("let x: u8 = kani::any(); let v: Option<u8> = Some(x);" if byte else
                f"let v: Option<u8> = if kani::any() {{ let x: u8 = kani::any(); kani::assume(x <= {mx}); Some(x) }} else {{ None }};")
        frame = "\n".join(f'    assert!(s.get_node(NodeKind::{o}) == before.get_node(NodeKind::{o}), "role=frame-{o.lower()}");' for (o, _) in seg_nodes if o != nd)
        hs.append(H("c18_seg_node_%s" % nd.lower(), "segment-nodes", "lib", f"""
#[kani::proof]
fn c18_seg_node_{nd.lower()}() {{
    let mut s = any_seg();
    let before = s;
    {anyv}
    assert!(before.get_node(NodeKind::{nd}) == ref_node(&before, NodeKind::{nd}), "role=get-node-ref");
    assert!(before.is_node_some(NodeKind::{nd}) == ref_node(&before, NodeKind::{nd}).is_some(), "role=is-node-some");
    assert!(before.is_node_none(NodeKind::{nd}) == ref_node(&before, NodeKind::{nd}).is_none(), "role=is-node-none");
    assert!(before.node_match(NodeKind::{nd}, v) == (ref_node(&before, NodeKind::{nd}) == v), "role=node-match");
    s.set_node(NodeKind::{nd}, v);
    assert!(s.get_node(NodeKind::{nd}) == v, "role=get-after-set");
    assert!(s.node_match(NodeKind::{nd}, v), "role=node-match-after-set");
{frame}
    assert!(s.is_place_some() == raw(&s.place).is_some() && s.is_place_none() == raw(&s.place).is_none(), "role=is-place");
    assert!(s.get_place_node() == s.place, "role=get-place-node");
    assert!(s.get_place_sub_nodes() == (ref_sub(raw(&s.place), 0), ref_sub(raw(&s.place), 1), ref_sub(raw(&s.place), 2), ref_sub(raw(&s.place), 3)), "role=get-place-sub-nodes");
    kani::cover!(v.is_some() && before.get_node(NodeKind::{nd}) != v);
    {"" if byte else "kani::cover!(v.is_none() && before.is_place_some() && s.is_place_none());"}
}}
""", functions=["Segment::{get_node,set_node,node_match,is_node_some,is_node_none,is_place_some,is_place_none,get_place_node,get_place_sub_nodes}", "Place::set_*", "Place::get_*"],
                    symbolic="all bundles (3 bytes x (None + 2^16 places)); value in range", shape="node " + nd, release_replay=True))

        hs.append(H("c18_seg_feat_%s" % nd.lower(), "segment-features", "lib", f"""
#[kani::proof]
fn c18_seg_feat_{nd.lower()}() {{
    // any mask inside the node's width (so also multi-feature masks), both polarities
    let mut s = any_seg();
    let before = s;
    let m: u8 = kani::any();
    kani::assume(m & !{mx}u8 == 0);
    let pos: bool = kani::any();
    let n = NodeKind::{nd};
    let old = ref_node(&before, n);
    assert!(before.get_feat(n, m) == old.map(|x| x & m), "role=get-feat-ref");
    assert!(before.feat_match(n, m, true) == (before.get_feat(n, m) == Some(m)), "role=feat-match-positive");
    assert!(before.feat_match(n, m, false) == (before.get_feat(n, m) == Some(0)), "role=feat-match-negative");
    if old.is_none() {{ assert!(!before.feat_match(n, m, true) && !before.feat_match(n, m, false), "role=absent-node-matches-neither"); }}
    s.set_feat(n, m, pos);
    if pos {{
        assert!(s.get_feat(n, m) == Some(m), "role=get-after-set-positive");
        assert!(s.get_node(n) == Some(old.unwrap_or(0) | m), "role=other-bits-of-node-positive");
    }} else if let Some(o) = old {{
        assert!(s.get_feat(n, m) == Some(0), "role=get-after-set-negative");
        assert!(s.get_node(n) == Some(o & !m), "role=other-bits-of-node-negative");
    }} else {{
        assert!(s == before, "role=negative-on-absent-node-is-noop");
    }}
{frame}
    {"" if byte else "kani::cover!(pos && old.is_none());"}
    kani::cover!(!pos && old.is_some() && m != 0 && s != before);
    kani::cover!(pos && old.is_some() && s != before);
}}
""", functions=["Segment::{get_feat,set_feat,feat_match,get_node,set_node}", "Place::set_*", "Place::get_*"],
                    symbolic="all bundles; any mask within the node's width; polarity", shape="node " + nd, release_replay=True))

    n = facts["ftype_count"]
    hs.append(H("c18_feature_table", "feature-table", "lib", f"""
#[kani::proof]
fn c18_feature_table() {{
    // symbolic feature index: the (node, mask) table agrees with the reference table, masks are single bits
    // inside the node's width, no two features share a bit; set/match through the table obey the laws
    let fi: usize = kani::any();
    kani::assume(fi < {n});
    let (nd, m) = FType::from_usize(fi).to_node_mask();
    assert!(nd == ref_nodekind(REF_FEAT_NODE[fi]) && m == REF_FEAT_MASK[fi], "role=feature-table-row");
    assert!(m.count_ones() == 1 && m & !node_width_mask(nd) == 0, "role=mask-shape");
    let fj: usize = kani::any();
    kani::assume(fj < {n} && fj != fi);
    let (nd2, m2) = FType::from_usize(fj).to_node_mask();
    assert!(nd2 != nd || m2 != m, "role=features-distinct");
    let mut s = any_seg();
    let before = s;
    let pos: bool = kani::any();
    s.set_feat(nd, m, pos);
    if pos || before.get_node(nd).is_some() {{
        assert!(s.feat_match(nd, m, pos) && !s.feat_match(nd, m, !pos), "role=match-after-set");
    }} else {{
        assert!(s == before, "role=negative-on-absent-node-is-noop");
    }}
    // every *other* feature reads as before, unless its sub-node was just created (then it reads negative)
    let o = before.get_feat(nd2, m2);
    let a = s.get_feat(nd2, m2);
    if nd2 == nd && before.get_node(nd).is_none() && pos {{ assert!(a == Some(0), "role=created-node-other-features-negative"); }}
    else {{ assert!(a == o, "role=frame-other-feature"); }}
    kani::cover!(fi == {n - 1} && pos && before.get_node(nd).is_none());
    kani::cover!(fi == 0 && fj == {n - 1});
    kani::cover!(nd2 == nd && before.get_node(nd).is_none() && pos);
}}
""", functions=["FType::from_usize", "FType::to_node_mask", "Segment::{set_feat,get_feat,feat_match,get_node}"], symbolic="feature index pair (symbolic), all bundles, polarity", shape="all %d features" % n))

    # vacuity twin
    hs.append(H("c18_twin_reach", "vacuity-twin", "lib", """
#[kani::proof]
fn c18_twin_reach() {
    let mut p = any_place();
    let v: Option<u8> = if kani::any() { let x: u8 = kani::any(); kani::assume(x <= 63); Some(x) } else { None };
    p.set_dorsal(v);
    let mut s = any_seg();
    s.set_feat(NodeKind::Dorsal, 0b100, false);
    assert!(false, "role=twin-end-reached");
}
""", functions=["Place::set_dorsal", "Segment::set_feat"], symbolic="as the setter harnesses", shape="assert(false) twin", expect="fail"))
    return {
        "harnesses": hs, "cap_s": 900, "jobs": 16, "second_solver": "kissat" if tier == "thorough" else None,
        "bounds": ["loop-free code: no unwinding bound; the only bounds are the types (u8 bytes, Option<u16> place)",
                   "values passed to set_* are within the documented range (<=3, <=63; debug_assert in the code)"],
        "outside": ["out-of-range payloads to Place::set_* / Segment::set_node (documented precondition)", "NodeKind::Place with get_node/set_node/get_feat (documented panic)"],
        "assumptions": ["Kani 0.68 / CBMC 6.11 / CaDiCaL sound for the compiled MIR (dev profile, overflow checks on)", "reference bit layout in harness/common.rs written from the doc comment of `Place`"],
    }


# =================================================================================================

import props_c04  # noqa: E402
import props_c12  # noqa: E402
import props_c05  # noqa: E402
import props_c08  # noqa: E402
import props_c14  # noqa: E402
import props_c07  # noqa: E402
import props_c03  # noqa: E402
import props_c16  # noqa: E402

PROPS = {"C18": c18, "C04": props_c04.c04, "C12": props_c12.c12, "C05": props_c05.c05, "C08": props_c08.c08, "C14": props_c14.c14, "C07": props_c07.c07, "C03": props_c03.c03}
# C16 is NOT claimed (see DESIGN.md): the generator is kept for the record and can be run as `./check C16X` (development only)
EXPERIMENTAL = {"C16X": props_c16.c16}


def dev(tier, seed, dst, facts):
    """development scratchpad: harnesses from .cache/dev.rs, blocks separated by `//! HARNESS <name> <host> [unwindset]`"""
    src = open(os.path.join(os.path.dirname(os.path.dirname(os.path.abspath(__file__))), ".cache", "dev.rs")).read()
    hs = []
    for m in re.finditer(r"^//! HARNESS (\S+) (\S+)( unwindset(?:=(\S+):(\d+))?)?\n(.*?)(?=^//! HARNESS|\Z)", src, re.S | re.M):
        h = H(m.group(1), "dev", m.group(2), m.group(6), shared=[SUBRULE_SHARED] if m.group(2) == "subrule" else [], stubs=["x"])
        if m.group(3):
            h["unwindset"] = {"pattern": m.group(4) or r"hashbrown|core..hash..sip|sip..Hasher|4hash3sip|BuildHasher|hash_one", "bound": int(m.group(5) or 3)}
        hs.append(h)
    return {"harnesses": hs, "cap_s": 900}


PROPS["DEV"] = dev
PROPS.update(EXPERIMENTAL)


def generate(pid, tier, seed, dst):
    facts = repo_facts(dst)
    spec = PROPS[pid](tier, seed, dst, facts)
    spec["facts"] = facts
    names = [h["name"] for h in spec["harnesses"]]
    assert len(names) == len(set(names)), "duplicate harness names"
    return spec
