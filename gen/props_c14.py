"""C14  segmental and suprasegmental changes do not leak into each other -- per-syllable mechanism (syll.rs:107-215)."""
import gen_harness as G
import props_c04
import props_c05

STUBS = ["std::hash::RandomState::new -> fixed keys"]


def c14(tier, seed, dst, facts):
    n = facts["ftype_count"]
    unwind = n + 2
    hs = []
    HDR = "#[kani::proof]\n" + G.STUB_RS + "\n#[kani::unwind(%d)]" % unwind
    feats = [15, 11, 20, 2] if tier == "quick" else list(range(n))
    for fi in feats:
        for (shape, segs, pos) in ([("mid", "x, a, y", 1)] if tier == "quick" else [("first", "a, y", 0), ("mid", "x, a, y", 1), ("last", "x, a", 1)]):
            nm = "c14_segmental_feat_%02d_%s" % (fi, shape)
            cnt = segs.count(",") + 1
            hs.append(G.H(nm, "segmental-change-keeps-prosody", "syll", G.T(HDR + """
fn @name@() {
    // an output matrix without length/stress/tone applied to one segment of a syllable
    let a = any_seg(); let x = any_seg(); let y = any_seg();
    kani::assume(a != x && a != y);
    let st = any_stress(); let tone: u16 = kani::any();
    let mut sy = syll_of(&[@segs@], st, tone);
    let alphas: RefCell<HashMap<char, Alpha>> = RefCell::new(HashMap::new());
    let mut m = mods_new();
    m.feats[@fi@] = Some(ModKind::Binary(any_bin()));
    let r = sy.apply_seg_mods(&alphas, &m, @pos@, P);
    match r { Ok(lc) => assert!(lc == 0, "role=segmental-change-reports-length-change"), Err(_) => assert!(false, "role=unexpected-error") }
    assert!(sy.segments.len() == @cnt@, "role=segmental-change-alters-segment-count");
    assert!(sy.stress == st && sy.tone == tone, "role=segmental-change-alters-stress-or-tone");
    let mut i = 0;
    while i < @cnt@ { if i != @pos@ { assert!(sy.segments[i] == [@segs@][i], "role=segmental-change-touches-neighbour"); } i += 1; }
    kani::cover!(sy.segments[@pos@] != a);
    std::mem::forget(alphas); std::mem::forget(sy);
}
""", name=nm, fi=fi, segs=segs, pos=pos, cnt=cnt), functions=["Syllable::apply_seg_mods", "Syllable::apply_supras", "Syllable::apply_syll_mods", "Segment::apply_seg_mods"],
                symbolic="bundles a, x, y, polarity, stress, all u16 tones", shape="[%s], [±%s] on a" % (segs, props_c04.fname(fi)), unwind=unwind, stubs=STUBS, weight=2))

    for ni in ([4, 3] if tier == "quick" else [3, 4, 5, 6, 7]):
        nm = "c14_segmental_node_%s" % G.NODES[ni].lower()
        hs.append(G.H(nm, "segmental-change-keeps-prosody", "syll", G.T(HDR + """
fn @name@() {
    let a = any_seg(); let x = any_seg(); let y = any_seg();
    kani::assume(a != x && a != y);
    let st = any_stress(); let tone: u16 = kani::any();
    let mut sy = syll_of(&[x, a, y], st, tone);
    let alphas: RefCell<HashMap<char, Alpha>> = RefCell::new(HashMap::new());
    let mut m = mods_new();
    m.nodes[@ni@] = Some(ModKind::Binary(BinMod::Negative));
    let r = sy.apply_seg_mods(&alphas, &m, 1, P);
    match r { Ok(lc) => assert!(lc == 0, "role=segmental-change-reports-length-change"), Err(_) => assert!(false, "role=unexpected-error") }
    assert!(sy.segments.len() == 3 && sy.segments[0] == x && sy.segments[2] == y, "role=segmental-change-touches-neighbour");
    assert!(sy.stress == st && sy.tone == tone, "role=segmental-change-alters-stress-or-tone");
    kani::cover!(sy.segments[1] != a);
    std::mem::forget(alphas); std::mem::forget(sy);
}
""", name=nm, ni=ni), functions=["Syllable::apply_seg_mods", "Segment::apply_seg_mods"], symbolic="bundles, stress, tone", shape="[x a y], [-%s] on a" % G.NODES[ni].lower(), unwind=unwind, stubs=STUBS, weight=2))

    # one-for-one replacement by a plain IPA segment
    hs.append(G.H("c14_replace_one_for_one", "segmental-change-keeps-prosody", "syll", G.T(HDR + """
fn c14_replace_one_for_one() {
    let a = any_seg(); let x = any_seg(); let y = any_seg(); let b = any_seg();
    kani::assume(a != x && a != y);
    let st = any_stress(); let tone: u16 = kani::any();
    let mut sy = syll_of(&[x, a, y], st, tone);
    let alphas: RefCell<HashMap<char, Alpha>> = RefCell::new(HashMap::new());
    let r = sy.replace_segment(1, &b, &None, &alphas, P);
    match r { Ok(lc) => assert!(lc == 0, "role=segmental-change-reports-length-change"), Err(_) => assert!(false, "role=unexpected-error") }
    assert!(sy.segments.len() == 3 && sy.segments[0] == x && sy.segments[1] == b && sy.segments[2] == y, "role=one-for-one-replacement");
    assert!(sy.stress == st && sy.tone == tone, "role=segmental-change-alters-stress-or-tone");
    kani::cover!(b != a);
    std::mem::forget(alphas); std::mem::forget(sy);
}
"""), functions=["Syllable::replace_segment", "Syllable::get_seg_length_at"], symbolic="bundles a, b, x, y, stress, tone", shape="[x a y], a replaced by IPA b", unwind=unwind, stubs=STUBS))

    hs.append(G.H("c14_replace_long_by_ipa", "segmental-change-keeps-prosody", "syll", G.T(HDR + """
fn c14_replace_long_by_ipa() {
    // a LONG segment replaced by a plain IPA segment: the run collapses to one copy, stress and tone stay
    let a = any_seg(); let x = any_seg(); let y = any_seg(); let b = any_seg();
    kani::assume(a != x && a != y);
    let st = any_stress(); let tone: u16 = kani::any();
    let mut sy = syll_of(&[x, a, a, y], st, tone);
    let alphas: RefCell<HashMap<char, Alpha>> = RefCell::new(HashMap::new());
    let r = sy.replace_segment(1, &b, &None, &alphas, P);
    match r { Ok(lc) => assert!(lc == -1, "role=segmental-change-reports-length-change"), Err(_) => assert!(false, "role=unexpected-error") }
    assert!(sy.segments.len() == 3 && sy.segments[0] == x && sy.segments[1] == b && sy.segments[2] == y, "role=one-for-one-replacement");
    assert!(sy.stress == st && sy.tone == tone, "role=segmental-change-alters-stress-or-tone");
    kani::cover!(tone != 0 && st != StressKind::Unstressed);
    std::mem::forget(alphas); std::mem::forget(sy);
}
"""), functions=["Syllable::replace_segment", "Syllable::get_seg_length_at"], symbolic="bundles a, b, x, y, stress, tone", shape="[x a a y], long a replaced by IPA b", unwind=unwind, stubs=STUBS))

    # prosody-only output on a syllable: segments bit-identical
    dec = "    let la = match k % 3 { 0 => None, 1 => Some(true), _ => Some(false) };\n    let lb = match k / 3 { 0 => None, 1 => Some(true), _ => Some(false) };\n"
    hs.append(G.H("c14_prosody_keeps_segments", "prosodic-change-keeps-segments", "syll", G.T(HDR + """
fn c14_prosody_keeps_segments() {
    let a = any_seg(); let b = any_seg(); let c = any_seg();
    let mut sy = syll_of(&[a, b, b, c], any_stress(), kani::any());
    let alphas: RefCell<HashMap<char, Alpha>> = RefCell::new(HashMap::new());
    let nt: Option<u16> = if kani::any() { Some(kani::any()) } else { None };
    let k: u8 = kani::any();
    kani::assume(k < 9);
    let r = match k {
@arms@
    };
    assert!(sy.segments.len() == 4 && sy.segments[0] == a && sy.segments[1] == b && sy.segments[2] == b && sy.segments[3] == c, "role=prosodic-change-alters-segments");
    kani::cover!(r.is_ok() && k == 4);
    kani::cover!(r.is_err());
    std::mem::forget(alphas); std::mem::forget(sy);
}
""", arms=props_c05.arms9("sy.apply_syll_mods(&alphas, &SupraSegs { stress: @M@, length: [None, None], tone: nt }, P)", "stress")),
        functions=["Syllable::apply_syll_mods"], symbolic="3 bundles (any, also equal neighbours), stress, tones, 9 stress combinations, optional new tone", shape="[a b b c], stress/tone output on the syllable", unwind=unwind, stubs=STUBS))
    for L in (1, 2, 3):
        segs = ", ".join(["x"] + ["a"] * L + ["y"])
        checks = " && ".join(["sy.segments.len() == %d" % (L + 2), "sy.segments[0] == x"] + ["sy.segments[%d] == a" % (i + 1) for i in range(L)] + ["sy.segments[%d] == y" % (L + 1)])
        nm = "c14_prosody_on_segment_keeps_segments_%d" % L
        hs.append(G.H(nm, "prosodic-change-keeps-segments", "syll", G.T(HDR + """
fn @name@() {
    // [±stress]/[tone:n] given on a *segment* (V > [+stress]): routed through apply_seg_mods -> apply_supras; the run of
    // @L@ identical segments (short / long / overlong) must come out with the same number of copies
    let a = any_seg(); let x = any_seg(); let y = any_seg();
    kani::assume(a != x && a != y);
    let mut sy = syll_of(&[@segs@], any_stress(), kani::any());
    let alphas: RefCell<HashMap<char, Alpha>> = RefCell::new(HashMap::new());
    let mut m = mods_new();
    let k: u8 = kani::any();
    kani::assume(k < 3);
    let nt: u16 = kani::any();
    let r = match k {
        0 => { m.suprs.stress = [bin(true), None]; sy.apply_seg_mods(&alphas, &m, 1, P) }
        1 => { m.suprs.stress = [None, bin(true)]; m.suprs.tone = Some(nt); sy.apply_seg_mods(&alphas, &m, 1, P) }
        _ => { m.suprs.stress = [bin(false), bin(false)]; m.suprs.tone = Some(nt); sy.apply_seg_mods(&alphas, &m, 1, P) }
    };
    match r { Ok(lc) => assert!(lc == 0, "role=prosodic-change-reports-length-change"), Err(_) => assert!(false, "role=unexpected-error") }
    assert!(@checks@, "role=prosodic-change-alters-segments");
    kani::cover!(k == 1);
    std::mem::forget(alphas); std::mem::forget(sy);
}
""", name=nm, L=L, segs=segs, checks=checks), functions=["Syllable::apply_seg_mods", "Syllable::apply_supras", "Syllable::apply_syll_mods"], symbolic="bundles, stress, tones", shape="[%s], stress/tone output on the run of %d" % (segs, L), unwind=unwind, stubs=STUBS, weight=2))

    hs.append(G.H("c14_twin_reach", "vacuity-twin", "syll", G.T(HDR + """
fn c14_twin_reach() {
    let a = any_seg(); let x = any_seg();
    kani::assume(a != x);
    let mut sy = syll_of(&[x, a], any_stress(), kani::any());
    let alphas: RefCell<HashMap<char, Alpha>> = RefCell::new(HashMap::new());
    let mut m = mods_new();
    m.feats[11] = Some(ModKind::Binary(any_bin()));
    let r = sy.apply_seg_mods(&alphas, &m, 1, P);
    kani::assume(r.is_ok());
    std::mem::forget(alphas); std::mem::forget(sy);
    assert!(false, "role=twin-end-reached");
}
"""), functions=["Syllable::apply_seg_mods"], symbolic="-", shape="assert(false) twin", expect="fail", unwind=unwind, stubs=STUBS))
    return {
        "harnesses": hs, "cap_s": 900 if tier == "quick" else 1500, "jobs": 8,
        "bounds": ["syllables of 2-4 segments, target first/middle/last; unwind %d" % unwind, "segment-only outputs: one-slot feature matrices (%d features this run), [-node] matrices, plain IPA replacement" % len(feats),
                   "prosody-only outputs: all 9 stress combinations x optional tone on the syllable; 3 combinations on a long segment"],
        "outside": ["boundary deletion/insertion and `$`-metathesis (subrule.rs:641-671, 715-745, 1043-1066, 1744-1766, 1942-1971): SubRule::transform with a symbolic position ran out of memory (27 GB) under CBMC",
                    "environments and exceptions (they select positions; they do not take part in the mutation)"],
        "assumptions": ["the modified segment differs from its neighbours (side condition of the property's fragment: equal neighbours are a long segment)", "std::hash::RandomState::new stubbed with fixed keys"],
    }
