"""C16  the trace tells the same story as the run -- the two loop nests of lib.rs, with Rule::apply abstracted."""
import gen_harness as G

SHARED = """
// Rule::apply is replaced (kani::stub) by an ARBITRARY deterministic function on an abstract word domain:
// C16_TABLE[rule id][word id] = new word id (< C16_DOM) or C16_DOM meaning `Err`. The solver picks the table.
const C16_DOM: u16 = @dom@;
static mut C16_TABLE: [[u16; @dom@]; @nrules@] = [[0; @dom@]; @nrules@];
fn c16_word_id(w: &Word) -> u16 { w.syllables[0].tone }
fn c16_stub_apply(r: &Rule, word: Word) -> Result<Word, Error> {
    let rid = r.input.len();
    let wid = c16_word_id(&word) as usize;
    let t = unsafe { C16_TABLE[rid][wid] };
    if t >= C16_DOM { std::mem::forget(word); return Err(Error::RuleRun(RuleRuntimeError::DeletionOnlySeg)) }
    let mut w = word;
    w.syllables[0].tone = t;
    Ok(w)
}
fn c16_rule(id: usize) -> Rule {
    let mut inp: Vec<Vec<Item>> = Vec::new();
    let mut i = 0; while i < id { inp.push(Vec::new()); i += 1; }
    Rule::new(inp, Vec::new(), Vec::new(), Vec::new())
}
fn c16_word(id: u16) -> Word {
    // one syllable without segments: the identity of the abstract word is its tone field
    let mut w = empty_word();
    let mut sy = crate::syll::Syllable::new();
    sy.tone = id;
    w.syllables.push(sy);
    w
}
fn c16_fill_table() {
    let mut i = 0;
    while i < @nrules@ { let mut j = 0; while j < @dom@ { let v: u16 = kani::any(); kani::assume(v <= C16_DOM); unsafe { C16_TABLE[i][j] = v; } j += 1; } i += 1; }
}
/// reference: state of word `w` after the rules `rules[..]` in order; None = some rule failed
fn c16_sim(rules: &[usize], w: u16) -> Option<u16> {
    let mut s = w; let mut i = 0;
    while i < rules.len() { let t = unsafe { C16_TABLE[rules[i]][s as usize] }; if t >= C16_DOM { return None } s = t; i += 1; }
    Some(s)
}
"""


def c16(tier, seed, dst, facts):
    hs = []
    dom, nrules = 3, 3
    shared = G.T(SHARED, dom=dom, nrules=nrules)
    HDR = "#[kani::proof]\n#[kani::stub(crate::rule::Rule::apply, c16_stub_apply)]\n#[kani::unwind(4)]"
    # shapes: (#words, groups as lists of rule ids)
    shapes = [(1, [[0], [1]]), (1, [[0], [], [1]]), (2, [[0], [1]])]
    if tier == "thorough":
        shapes += [(1, [[0, 1], [2]]), (2, [[0], [1, 2]]), (1, [[0], [1], [2]]), (2, [[], [0], [1]]), (1, [[], []])]
    for (nw, groups) in shapes:
        ng = len(groups)
        tag = "w%d_%s" % (nw, "_".join("g" + "".join(map(str, g)) if g else "g" for g in groups))
        name = "c16_trace_vs_run_" + tag
        mk_groups = "vec![%s]" % ", ".join("vec![%s]" % ", ".join("c16_rule(%d)" % r for r in g) for g in groups)
        wdecl = "\n".join("    let w%d: u16 = kani::any(); kani::assume(w%d < C16_DOM);" % (i, i) for i in range(nw))
        phrase = "Phrase(vec![%s])" % ", ".join("c16_word(w%d)" % i for i in range(nw))
        # reference states per word after each group prefix
        flat_prefix = []
        acc = []
        for g in groups:
            acc = acc + g
            flat_prefix.append(list(acc))
        simdecl = []
        for gi in range(ng):
            for wi in range(nw):
                simdecl.append("    let s%d_%d = c16_sim(&[%s], w%d);" % (gi, wi, ", ".join("%dusize" % r for r in flat_prefix[gi]), wi))
        all_ok = " && ".join("s%d_%d.is_some()" % (ng - 1, wi) for wi in range(nw))
        # note: a prefix failing implies the full sequence fails, so `all_ok` on the last prefix is "no rule ever fails"
        changed = []
        for gi in range(ng):
            prev = ["Some(w%d)" % wi if gi == 0 else "s%d_%d" % (gi - 1, wi) for wi in range(nw)]
            changed.append("(" + " || ".join("s%d_%d != %s" % (gi, wi, prev[wi]) for wi in range(nw)) + ")")
        body_trace = []
        body_trace.append("            let mut k = 0;")
        for gi in range(ng):
            body_trace.append("            if %s {" % changed[gi])
            body_trace.append("                assert!(k < t.len(), \"role=changing-group-not-reported\");")
            body_trace.append("                assert!(t[k].rule_index == %d, \"role=reported-index\");" % gi)
            for wi in range(nw):
                body_trace.append("                assert!(Some(c16_word_id(&t[k].after[%d])) == s%d_%d, \"role=reported-state-is-run-of-prefix\");" % (wi, gi, wi))
            body_trace.append("                assert!(t[k].after.len() == %d, \"role=reported-phrase-length\");" % nw)
            body_trace.append("                k += 1;")
            body_trace.append("            }")
        body_trace.append("            assert!(k == t.len(), \"role=unchanged-group-reported\");")
        prefix_runs = []
        for gi in range(ng):
            prefix_runs.append("            match apply_rule_groups(&groups[..%d], &phrases) { Ok(p) => { %s std::mem::forget(p); } Err(_) => assert!(false, \"role=prefix-run-fails\") }" % (
                gi + 1, " ".join("assert!(Some(c16_word_id(&p[0][%d])) == s%d_%d, \"role=run-of-prefix\");" % (wi, gi, wi) for wi in range(nw))))
        code = G.T(HDR + """
fn @name@() {
    // @nw@-word phrase, rule groups @groups@ (rule ids); every deterministic behaviour of the rules on a @dom@-word domain
    c16_fill_table();
@wdecl@
    let groups: Vec<Vec<Rule>> = @mk_groups@;
    let phrase = @phrase@;
    let phrases = [phrase.clone()];
@simdecl@
    let run = apply_rule_groups(&groups, &phrases);
    let tr = apply_rules_trace(&groups, &phrase);
    match (run, tr) {
        (Ok(r), Ok(t)) => {
            assert!(@all_ok@, "role=error-swallowed");
            assert!(r.len() == 1 && r[0].len() == @nw@, "role=run-shape");
@final_eq@
@body_trace@
            // the last reported state (or the input) is what the plain run returns
            if t.len() > 0 { @last_eq@ } else { @input_eq@ }
@prefix_runs@
            kani::cover!(t.len() == @ng_nonempty@);
            kani::cover!(t.len() == 0);
            std::mem::forget(r); std::mem::forget(t);
        }
        (Err(_), Err(_)) => { assert!(!(@all_ok@), "role=spurious-error"); }
        (Ok(r), Err(_)) => { assert!(false, "role=trace-fails-where-run-succeeds"); }
        (Err(_), Ok(t)) => { assert!(false, "role=run-fails-where-trace-succeeds"); }
    }
    kani::cover!(!(@all_ok@));
    std::mem::forget(groups); std::mem::forget(phrase); std::mem::forget(phrases);
}
""", name=name, nw=nw, groups=groups, dom=dom, wdecl=wdecl, mk_groups=mk_groups, phrase=phrase, simdecl="\n".join(simdecl), all_ok=all_ok,
            final_eq="\n".join("            assert!(Some(c16_word_id(&r[0][%d])) == s%d_%d, \"role=run-result\");" % (wi, ng - 1, wi) for wi in range(nw)),
            body_trace="\n".join(body_trace),
            last_eq=" ".join("assert!(c16_word_id(&t[t.len() - 1].after[%d]) == c16_word_id(&r[0][%d]), \"role=last-reported-state-is-run-result\");" % (wi, wi) for wi in range(nw)),
            input_eq=" ".join("assert!(c16_word_id(&r[0][%d]) == w%d, \"role=nothing-reported-but-run-changes\");" % (wi, wi) for wi in range(nw)),
            prefix_runs="\n".join(prefix_runs), ng_nonempty=sum(1 for g in groups if g))
        hs.append(G.H(name, "trace-vs-run", "lib", code, shared=[shared], functions=["asca::apply_rule_groups (lib.rs:185)", "asca::apply_rules_trace (lib.rs:212)", "Phrase/Word/Syllable clone and ==", "Vec<Change>::push"],
                      symbolic="table %d rules x %d words -> {word, Err} (4^%d behaviours), %d start word(s)" % (nrules, dom, nrules * dom, nw), shape="%d word(s), groups %s" % (nw, groups), unwind=4,
                      stubs=["Rule::apply -> symbolic table (the abstraction is the point of the harness)"], no_native_replay=True, weight=5))
    hs.append(G.H("c16_twin_reach", "vacuity-twin", "lib", G.T(HDR + """
fn c16_twin_reach() {
    c16_fill_table();
    let groups: Vec<Vec<Rule>> = vec![vec![c16_rule(0)]];
    let phrase = Phrase(vec![c16_word(0)]);
    let tr = apply_rules_trace(&groups, &phrase);
    kani::assume(tr.is_ok());
    std::mem::forget(tr); std::mem::forget(groups); std::mem::forget(phrase);
    assert!(false, "role=twin-end-reached");
}
"""), shared=[shared], functions=["asca::apply_rules_trace"], symbolic="-", shape="assert(false) twin", expect="fail", unwind=4, stubs=["Rule::apply -> symbolic table"], no_native_replay=True))
    return {
        "harnesses": hs, "cap_s": 2400, "jobs": 8,
        "bounds": ["abstract word domain of %d words, %d rules, all 4^%d deterministic rule behaviours including failing ones" % (dom, nrules, dom * nrules), "shapes this run: %s" % [(nw, g) for nw, g in shapes], "unwind 4"],
        "outside": ["trace_to_string / get_trace_string (rendering -> lazy_static tables)", "what real rules do: Rule::apply is deliberately abstracted to an arbitrary pure function", "phrases of 3+ words, 4+ groups"],
        "assumptions": ["Rule::apply is deterministic and depends only on (rule, word) -- property C01's subject, assumed here", "the abstract words differ only in the tone of a segment-less syllable; Word::eq compares syllables structurally"],
    }
