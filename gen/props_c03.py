"""C03  a basic sound change rewrites exactly the positions its environment selects -- environment-selection kernel."""
import itertools, random
import gen_harness as G
from props_c04 import fname

STUBS = ["std::hash::RandomState::new -> fixed keys"]
KINDS = "I#$"           # IPA segment, word boundary, syllable boundary
# One-slot matrices as environment elements (`M`) were generated at first and are OUT OF REACH: every shape with a
# matrix element (context_match_matrix -> match_modifiers over 26 + 8 slots, inside the environment loop) ran past
# 40 minutes under CBMC (measured: `M _ M`, `M _`, `I _ M$`, `#M _ II`). match_modifiers itself is decided under C04.


def compositions(n):
    if n == 0:
        return [[]]
    out = []
    for first in range(1, n + 1):
        for rest in compositions(n - first):
            out.append([first] + rest)
    return out


def side_patterns():
    """element-kind sequences for one side, written in rule order from the periphery towards the target; `#` only
    at the periphery (doc: 'must only be used once on either periphery')"""
    pats = [""]
    for k in KINDS:
        pats.append(k)
    for a in KINDS:
        for b in "I$":
            pats.append(a + b)
    return pats


def all_shapes():
    shapes = []
    for n in (3, 4):
        for comp in compositions(n):
            for t in range(n):
                for bp in side_patterns():
                    for ap in side_patterns():
                        if not bp and not ap:
                            continue
                        shapes.append((tuple(comp), t, bp, ap[::-1]))   # after side: periphery is on the right => reverse to reading order
    return shapes


def pick(tier, seed):
    rnd = random.Random(1000 + seed)
    shapes = all_shapes()
    # always-present regression core: the off-by-one classes the property names
    core = [((2, 1), 1, "#I", "I"), ((3,), 0, "#", "I"), ((3,), 2, "I", "#"), ((1, 2), 1, "$", "I"), ((2, 1), 1, "I", "$"),
            ((1, 1, 1), 1, "I$", "$I"), ((2, 2), 2, "I$", "I#"), ((2, 2), 1, "#I", "$I"), ((2, 1), 2, "I$", "#"), ((4,), 3, "II", "#"),
            ((1, 2), 2, "$I", "$"), ((2, 1), 0, "$", "I$"), ((4,), 2, "II", ""), ((3,), 1, "", "II")]
    # exception polarity (is_context = false) for every shape whose index is a multiple of 3: make sure the two-element
    # before/after parts are among them
    n_extra = 6 if tier == "quick" else 120
    # stratify: every (before-pattern, after-pattern) class gets a chance before repeats
    rnd.shuffle(shapes)
    seen, extra = set(), []
    for s in shapes:
        key = (s[2], s[3])
        if key in seen or s in core:
            continue
        seen.add(key)
        extra.append(s)
        if len(extra) >= n_extra:
            break
    return core + extra


def oracle(side, pats, names, n, t):
    """straight-line reference: cursor walks away from the target; returns Rust statements computing `ok_<side>`"""
    out = []
    if side == "after":
        out.append("    let mut c: isize = %d; let mut ok_after = true;" % (t + 1))
        for k, nm in zip(pats, names):
            if k == "I":
                out.append("    if ok_after { if c < %d && xs[c as usize] == %s { c += 1; } else { ok_after = false; } }" % (n, nm))
            elif k == "M":
                out.append("    if ok_after { if c < %d && ref_match_feat(&xs[c as usize], %s.0, %s.1) { c += 1; } else { ok_after = false; } }" % (n, nm, nm))
            elif k == "#":
                out.append("    if ok_after { if c < %d { ok_after = false; } }" % n)
            elif k == "$":
                out.append("    if ok_after { if !(c >= %d || starts[c as usize]) { ok_after = false; } }" % n)
    else:
        out.append("    let mut c: isize = %d; let mut ok_before = true;" % (t - 1))
        # nearest element first
        for k, nm in zip(pats[::-1], names[::-1]):
            if k == "I":
                out.append("    if ok_before { if c >= 0 && xs[c as usize] == %s { c -= 1; } else { ok_before = false; } }" % nm)
            elif k == "M":
                out.append("    if ok_before { if c >= 0 && ref_match_feat(&xs[c as usize], %s.0, %s.1) { c -= 1; } else { ok_before = false; } }" % (nm, nm))
            elif k == "#":
                out.append("    if ok_before { if c >= 0 { ok_before = false; } }")
            elif k == "$":
                out.append("    if ok_before { if !starts[(c + 1) as usize] { ok_before = false; } }")
    return "\n".join(out)


def cov(pats, side, t, n, starts):
    if not pats:
        return []
    okp, failp = feasible(pats, side, t, n, starts)
    return (["kani::cover!(ok_%s);" % side] if okp else []) + (["kani::cover!(!ok_%s);" % side] if failp else [])


def item(k, nm):
    if k == "I":
        return "Item::new(ParseElement::Ipa(%s, None), P)" % nm
    if k == "M":
        return "Item::new(ParseElement::Matrix(mat(%s.0, %s.1), None), P)" % (nm, nm)
    if k == "#":
        return "Item::new(ParseElement::WordBound, P)"
    return "Item::new(ParseElement::SyllBound, P)"


SHARED = """
fn mat(fi: usize, pos: bool) -> Modifiers { let mut m = mods_new(); m.feats[fi] = bin(pos); m }
"""


def c03(tier, seed, dst, facts):
    n_f = facts["ftype_count"]
    unwind = n_f + 2
    hs = []
    HDR = "#[kani::proof]\n" + G.STUB_RS + "\n#[kani::unwind(%d)]" % unwind
    HDR8 = "#[kani::proof]\n" + G.STUB_RS + "\n#[kani::unwind(8)]"
    mat_feats = [11, 15, 2, 20, 6, 16, 24]
    for idx, (comp, t, bp, ap) in enumerate(pick(tier, seed)):
        n = sum(comp)
        # flat index -> (syll, seg)
        posmap, starts = [], [False] * (n + 1)
        fi = 0
        for si, ln in enumerate(comp):
            starts[fi] = True
            for gi in range(ln):
                posmap.append((si, gi))
                fi += 1
        starts[n] = True
        si, gi = posmap[t]
        rsi, rgi = len(comp) - 1 - si, comp[si] - 1 - gi
        decl, bnames, anames = [], [], []
        for j, k in enumerate(bp):
            nm = "b%d" % j
            bnames.append(nm)
            if k == "I":
                decl.append("    let %s = any_seg();" % nm)
            elif k == "M":
                decl.append("    let %s: (usize, bool) = (%d, kani::any());" % (nm, mat_feats[(idx + j) % len(mat_feats)]))
        for j, k in enumerate(ap):
            nm = "a%d" % j
            anames.append(nm)
            if k == "I":
                decl.append("    let %s = any_seg();" % nm)
            elif k == "M":
                decl.append("    let %s: (usize, bool) = (%d, kani::any());" % (nm, mat_feats[(idx + j + 3) % len(mat_feats)]))
        xs = ["x%d" % i for i in range(n)]
        distinct = " && ".join("x%d != x%d" % (i, i + 1) for i in range(n - 1) if posmap[i][0] == posmap[i + 1][0]) or "true"
        sylls, rsylls, off = [], [], 0
        for ln in comp:
            sylls.append("[%s]" % ", ".join(xs[off:off + ln]))
            rsylls.append("[%s]" % ", ".join(reversed(xs[off:off + ln])))
            off += ln
        build_w = "\n".join("    w.syllables.push(syll_of(&%s, any_stress(), kani::any()));" % s for s in sylls)
        build_wr = "\n".join("    wr.syllables.push(syll_of(&%s, any_stress(), kani::any()));" % s for s in reversed(rsylls))
        bef_items = ", ".join(item(k, nm) for k, nm in list(zip(bp, bnames))[::-1])      # nearest first, as the combinator passes it
        aft_items = ", ".join(item(k, nm) for k, nm in zip(ap, anames))
        name = "c03_env_%03d_%s_t%d_%s_%s" % (idx, "".join(map(str, comp)), t, (bp or "0").replace("#", "W").replace("$", "S"), (ap or "0").replace("#", "W").replace("$", "S"))
        call_b = ("    let rb = sub.match_before_env(&bef, &wr, &pr, false, is_ctx);\n    match rb { Ok(v) => assert!(v == ok_before, \"role=before-environment-selection\"), Err(_) => assert!(false, \"role=unexpected-error\") }\n" if bp else "")
        call_a = ("    let ra = sub.match_after_env(&aft, &w, &pos, false, true, is_ctx);\n    match ra { Ok(v) => assert!(v == ok_after, \"role=after-environment-selection\"), Err(_) => assert!(false, \"role=unexpected-error\") }\n" if ap else "")
        code = G.T(HDR + """
fn @name@() {
    // word @comp@ (syllable sizes), target = flat index @t@ = (@si@,@gi@); environment `@benv@ _ @aenv@`
@xdecl@
    kani::assume(@distinct@);
@decl@
    let sub = mk_sub(RuleType::Substitution);
    let mut w = empty_word();
@build_w@
    let mut wr = empty_word();
@build_wr@
    let xs = [@xs@];
    let starts = [@starts@];
    let pos = SegPos::new(@si@, @gi@);
    let pr = pos.reversed(&w);
    assert!(pr == SegPos::new(@rsi@, @rgi@), "role=reversed-position");
    let is_ctx: bool = @isctx@;
    @befdecl@
    @aftdecl@
@oracle_b@
@oracle_a@
@call_b@@call_a@
    @covers@
    std::mem::forget(sub); std::mem::forget(w); std::mem::forget(wr);@forgets@
}
""", name=name, comp=list(comp), t=t, si=si, gi=gi, rsi=rsi, rgi=rgi, benv=bp or "", aenv=ap or "",
            xdecl="\n".join("    let %s = any_seg();" % x for x in xs), distinct=distinct, decl="\n".join(decl), build_w=build_w, build_wr=build_wr,
            xs=", ".join(xs), starts=", ".join("true" if s else "false" for s in starts),
            isctx="false" if (idx % 3 == 0 or idx in (10, 11, 12, 13)) else "true",
            befdecl=("let bef = [%s];" % bef_items) if bp else "", aftdecl=("let aft = [%s];" % aft_items) if ap else "",
            oracle_b=oracle("before", bp, bnames, n, t) if bp else "", oracle_a=oracle("after", ap, anames, n, t) if ap else "",
            call_b=call_b, call_a=call_a,
            covers="\n    ".join(cov(bp, "before", t, n, starts) + cov(ap, "after", t, n, starts)),
            forgets=(" std::mem::forget(bef);" if bp else "") + (" std::mem::forget(aft);" if ap else ""))
        hs.append(G.H(name, "environment-selection", "subrule", code, shared=[G.SUBRULE_SHARED, SHARED],
                      functions=["SubRule::match_before_env", "SubRule::match_after_env", "SubRule::context_match", "SubRule::context_match_ipa", "SubRule::context_match_matrix", "SubRule::match_modifiers", "SegPos::increment", "SegPos::reversed", "Word::in_bounds/out_of_bounds"],
                      symbolic="%d word bundles + %d context bundles, matrix polarities, stress/tone" % (n, sum(1 for k in bp + ap if k == "I")),
                      shape="word %s target %d env `%s _ %s` (%s)" % (list(comp), t, bp, ap, "exception" if (idx % 3 == 0 or idx in (10, 11, 12, 13)) else "context"), unwind=unwind, stubs=STUBS, weight=3))

    # (A lemma family `Word::reverse(w)` == the hand-built reversed word was generated here at first. It is out of reach:
    # Word::reverse starts with Word::clone, and `Vec<Syllable>::clone` (<[T]>::to_vec for a non-Copy element) exhausts
    # 14 GB under CBMC even for a one-element vector; with Word::clone stubbed by an element-wise copy the rest
    # (VecDeque::make_contiguous + slice::reverse) still ran past 15 minutes. Word::reverse is therefore NOT encoded; the
    # harnesses build the reversed word directly and assert SegPos::reversed against it.)
    lemma_shapes = []
    # ---------------------------------------------------------------- sets in environments: `{c, $}` / `{$, c}` / `{c, d}`
    # context_match_set takes the set as a slice (R5: stack array). Alternatives are tried in the order written, the first
    # one that holds decides how far the cursor moves (a boundary consumes nothing), a failed set restores the cursor.
    # (a matrix alternative, shape ("MI", True), ran past 25 minutes: out of reach like matrices in environments)
    set_shapes = [("IS", True), ("SI", True), ("II", True), ("IS", False)] if tier == "thorough" else [("IS", True)] + [[("SI", True)], [("II", True)]][seed % 2]
    for (kinds, fw) in set_shapes:
        nm = "c03_set_%s_%s" % (kinds.replace("$", "S"), "fw" if fw else "bw")
        alts = []
        for j, k in enumerate(kinds):
            alts.append("Item::new(ParseElement::Ipa(c%d, None), P)" % j if k == "I" else "Item::new(ParseElement::Matrix(mat(15, mpol), None), P)" if k == "M" else "Item::new(ParseElement::SyllBound, P)")
        # reference: first alternative (in written order) that holds at flat position q of word [x0].[x1 x2]; returns consumed count
        def ref(q, at_start):
            out = ["let mut hit: Option<usize> = None;"]
            for j, k in enumerate(kinds):
                if k == "I":
                    out.append("if hit.is_none() && xs[%d] == c%d { hit = Some(1); }" % (q, j))
                elif k == "M":
                    out.append("if hit.is_none() && ref_match_feat(&xs[%d], 15, mpol) { hit = Some(1); }" % q)
                else:
                    out.append("if hit.is_none() && %s { hit = Some(0); }" % ("true" if at_start else "false"))
            return " ".join(out)
        hs.append(G.H(nm, "environment-set", "subrule", G.T((HDR if "M" in kinds else HDR8) + """
fn @name@() {
    // word [x0].[x1 x2] (handed to the matcher @dirdesc@); set {@kinds@} met at the start of the second syllable and in its middle
    let x0 = any_seg(); let x1 = any_seg(); let x2 = any_seg();
    kani::assume(x1 != x2);
    let c0 = any_seg(); let c1 = any_seg(); let mpol: bool = kani::any();
    let mut w = empty_word();
    w.syllables.push(syll_of(&[x0], any_stress(), kani::any()));
    w.syllables.push(syll_of(&[x1, x2], any_stress(), kani::any()));
    let xs = [x0, x1, x2];
    let sub = mk_sub(RuleType::Substitution);
    let set = [@alts@];
    {
        let mut pos = SegPos::new(1, 0);
        @ref_start@
        let r = sub.context_match_set(&set, &w, &mut pos, @fw@);
        match r { Ok(v) => assert!(v == hit.is_some(), "role=set-matches-iff-some-alternative-does"), Err(_) => assert!(false, "role=unexpected-error") }
        match hit { Some(1) => assert!(pos == SegPos::new(1, 1), "role=first-listed-alternative-decides-cursor"), _ => assert!(pos == SegPos::new(1, 0), "role=boundary-or-failed-set-leaves-cursor") }
        @cov_start@
    }
    {
        let mut pos = SegPos::new(1, 1);
        @ref_mid@
        let r = sub.context_match_set(&set, &w, &mut pos, @fw@);
        match r { Ok(v) => assert!(v == hit.is_some(), "role=set-matches-iff-some-alternative-does"), Err(_) => assert!(false, "role=unexpected-error") }
        match hit { Some(1) => assert!(pos == SegPos::new(2, 0), "role=first-listed-alternative-decides-cursor"), _ => assert!(pos == SegPos::new(1, 1), "role=boundary-or-failed-set-leaves-cursor") }
        kani::cover!(hit.is_none());
    }
    std::mem::forget(sub); std::mem::forget(w); std::mem::forget(set);
}
""", name=nm, kinds=", ".join("c%d" % j if k == "I" else "[±round]" if k == "M" else "$" for j, k in enumerate(kinds)), alts=", ".join(alts), fw="true" if fw else "false",
            dirdesc="as it is" if fw else "as the REVERSED word of [x2 x1].[x0]: same structure, the matcher only differs in `forwards`",
            ref_start=ref(1, True), ref_mid=ref(2, False),
            cov_start=("kani::cover!(hit == Some(1)); " if kinds[0] == "I" else "") + ("kani::cover!(hit == Some(0));" if "S" in kinds else "kani::cover!(hit.is_none());")), shared=[G.SUBRULE_SHARED, SHARED],
            functions=["SubRule::context_match_set", "SubRule::context_match_ipa", "SegPos::increment", "HashMap::clone (empty binding tables)"],
            symbolic="3 word bundles + 2 set bundles, stress, tone", shape="set {%s} in word [1, 2], %s" % (kinds, "forwards" if fw else "backwards"), unwind=8, stubs=STUBS, weight=2))

    # ---------------------------------------------------------------- position arithmetic on concrete word shapes, SYMBOLIC position
    # The cursor primitives every matcher shares: Word::in_bounds/out_of_bounds, SegPos::{increment, decrement, reversed,
    # at_syll_start, at_syll_end, at_word_start, at_word_end}. The reference is the flat index of (syllable, segment).
    pos_shapes = [(2, 1), (1, 2), (1, 1, 1), (3,), (2, 2), (1, 3)] if tier == "quick" else [tuple(c) for n in (2, 3, 4) for c in compositions(n)]
    for comp in pos_shapes:
        n = sum(comp); K = len(comp)
        starts_ = [sum(comp[:i]) for i in range(K)]
        nm = "c03_segpos_%s" % "".join(map(str, comp))
        build = "\n".join("    w.syllables.push(syll_of(&[%s], any_stress(), kani::any()));" % ", ".join("any_seg()" for _ in range(ln)) for ln in comp)
        hs.append(G.H(nm, "position-arithmetic", "subrule", G.T(HDR8 + """
fn @name@() {
    // word with syllable sizes @comp@; any position, in bounds or not
    let mut w = empty_word();
@build@
    let lens: [usize; @K@] = [@lens@];
    let starts: [usize; @K@] = [@starts@];
    let si: usize = kani::any(); let gi: usize = kani::any();
    kani::assume(si <= @K@ && gi <= 4);
    let p = SegPos::new(si, gi);
    let inb = si < @K@ && gi < lens[if si < @K@ { si } else { 0 }];
    assert!(w.in_bounds(p) == inb, "role=in-bounds");
    assert!(w.out_of_bounds(p) == !inb, "role=out-of-bounds-is-the-negation");
    if inb {
        let flat = starts[si] + gi;
        assert!(p.at_syll_start() == (gi == 0), "role=at-syll-start");
        assert!(p.at_syll_end(&w) == (gi + 1 == lens[si]), "role=at-syll-end");
        assert!(p.at_word_start() == (flat == 0), "role=at-word-start");
        assert!(p.at_word_end(&w) == (flat + 1 == @n@), "role=at-word-end");
        assert!(p.reversed(&w) == SegPos::new(@K@ - 1 - si, lens[si] - 1 - gi), "role=reversed-position");
        let mut q = p; q.increment(&w);
        // the next segment in flat order; one past the last segment is (number of syllables, 0)
        if gi + 1 < lens[si] { assert!(q == SegPos::new(si, gi + 1), "role=increment-inside-syllable"); }
        else { assert!(q == SegPos::new(si + 1, 0), "role=increment-across-syllable-edge"); }
        assert!(w.in_bounds(q) == (flat + 1 < @n@), "role=increment-leaves-word-only-at-the-end");
        let mut r = p; r.decrement(&w);
        if gi > 0 { assert!(r == SegPos::new(si, gi - 1), "role=decrement-inside-syllable"); }
        else if si > 0 { assert!(r == SegPos::new(si - 1, lens[si - 1] - 1), "role=decrement-across-syllable-edge"); }
        else { assert!(r == p, "role=decrement-at-word-start-stays"); }
        if flat + 1 < @n@ { let mut b = q; b.decrement(&w); assert!(b == p, "role=decrement-undoes-increment"); }
    }
    @cov_edge@
    kani::cover!(inb && si == @K@ - 1 && gi + 1 == lens[si]);
    kani::cover!(!inb && si < @K@);
    kani::cover!(si == @K@);
    std::mem::forget(w);
}
""", name=nm, comp=list(comp), build=build, K=K, n=n, lens=", ".join(map(str, comp)), starts=", ".join(map(str, starts_)),
            cov_edge=("kani::cover!(inb && gi + 1 == lens[si] && si + 1 < %d);" % K) if K > 1 else ""), shared=[G.SUBRULE_SHARED, SHARED],
            functions=["Word::in_bounds", "Word::out_of_bounds", "SegPos::increment", "SegPos::decrement", "SegPos::reversed", "SegPos::at_syll_start", "SegPos::at_syll_end", "SegPos::at_word_start", "SegPos::at_word_end"],
            symbolic="position (syllable index 0..=K, segment index 0..=4), bundles, stress, tone", shape="word %s" % list(comp), unwind=8, stubs=STUBS))

    hs.append(G.H("c03_twin_reach", "vacuity-twin", "subrule", G.T(HDR + """
fn c03_twin_reach() {
    let x0 = any_seg(); let x1 = any_seg(); let c = any_seg();
    kani::assume(x0 != x1);
    let sub = mk_sub(RuleType::Substitution);
    let mut w = empty_word();
    w.syllables.push(syll_of(&[x0, x1], any_stress(), kani::any()));
    let aft = [Item::new(ParseElement::Ipa(c, None), P)];
    let r = sub.match_after_env(&aft, &w, &SegPos::new(0, 0), false, true, true);
    kani::assume(r.is_ok());
    std::mem::forget(sub); std::mem::forget(w); std::mem::forget(aft);
    assert!(false, "role=twin-end-reached");
}
"""), shared=[G.SUBRULE_SHARED, SHARED], functions=["SubRule::match_after_env"], symbolic="-", shape="assert(false) twin", expect="fail", unwind=unwind, stubs=STUBS))

    total = len(all_shapes())
    return {
        "harnesses": hs, "cap_s": 900 if tier == "quick" else 1800, "jobs": 10,
        "bounds": ["words of 3 and 4 segments in every syllabification, every target position, environments with up to 2 elements per side from {IPA segment, #, $} (# only at the periphery): %d shapes in all, %d decided this run (14 fixed regression shapes + seeded stratified draw; VERIF_SEED=%d)" % (total, sum(1 for h in hs if h["family"] == "environment-selection"), seed),
                   "environment states are passed as stack arrays (R5); unwind %d" % unwind,
                   "sets: two alternatives from {IPA segment, $}; position arithmetic: every word shape of 2-4 segments (6 of them in the quick tier), syllable index 0..=K, segment index 0..=4", "every third shape runs the exception polarity (is_context=false)"],
        "outside": ["the six-line combinator SubRule::match_contexts_and_exceptions itself (context AND NOT exception over environment sets): it deep-clones Vec<Item> and a reversed Word, whose recursive clone/drop glue does not finish; the harness recombines the two halves the same way",
                    "the left-to-right scan ('as already rewritten'), input matching and the rewrite itself (SubRule::apply -> input_match_at -> substitution): whole-rule application does not finish under CBMC",
                    "one-slot matrices as environment elements: every such shape ran past 40 minutes (context_match_matrix -> match_modifiers inside the environment loop); match_modifiers is decided separately under C04",
                    "Word::reverse itself (Vec<Syllable>::clone exhausts memory under CBMC): the harness builds the reversed word by hand and checks SegPos::reversed against it",
                    "optionals, ellipses, syllables, structures and variables inside environments; sets are decided at the kernel (context_match_set on a two-alternative set), not inside a longer environment"],
        "assumptions": ["neighbouring word segments inside a syllable are pairwise distinct (the property's own side condition)", "`$` holds at every syllable edge including the two word edges, `#` only past the word edge (anchor: subrule.rs:229-234)",
                        "reference walk emitted per shape by gen/props_c03.py:oracle()", "std::hash::RandomState::new stubbed with fixed keys"],
    }


def feasible(pats, side, t, n, starts):
    """which outcomes the *shape* allows (IPA/matrix elements can always be made to match or to fail when in bounds):
    -> (ok_possible, fail_possible); used to emit only satisfiable cover witnesses"""
    c = t + 1 if side == "after" else t - 1
    seq = pats if side == "after" else pats[::-1]
    can_fail = False
    for k in seq:
        if k in "IM":
            if (side == "after" and c < n) or (side == "before" and c >= 0):
                can_fail = True
                c += 1 if side == "after" else -1
            else:
                return (False, True)
        elif k == "#":
            if (side == "after" and c < n) or (side == "before" and c >= 0):
                return (False, True)
        else:
            okb = (c >= n or starts[c]) if side == "after" else starts[c + 1]
            if not okb:
                return (False, True)
    return (True, can_fail)
