// Native demonstration of known finding C07-stress-alpha-secondary (drop into <repo>/tests/ and `cargo test --offline`).
// A single stress alpha is a boolean, so the three-way stress value does not survive `[αstress] > [αstress]`:
// a secondary-stressed syllable comes out primary-stressed although the rule only restates its input.
use asca::*;
#[test]
fn stress_alpha_roundtrip_loses_secondary_stress() {
    let r = run(&[RuleGroup::from_rules(vec!["%:[Astress] > [Astress]".to_string()])], &["ˌa".to_string()], &[], &[]).ok().unwrap();
    assert_eq!(r, vec!["ˌa".to_string()], "observed on the pinned tree: [\"ˈa\"]");
}
